#!/bin/bash
# usage: mutate.sh <file> <python-regex-old> <new> <ID> ; applies a textual mutation to /repo, runs the quick check, reverts.
f=$1; old=$2; new=$3; id=$4
cd /repo
python3 - "$f" "$old" "$new" <<'PY'
import sys,re
f,old,new=sys.argv[1:4]
s=open(f).read()
if old not in s: print("PATTERN NOT FOUND"); sys.exit(3)
s=s.replace(old,new,1)
open(f,'w').write(s)
PY
[ $? -eq 3 ] && exit 3
cd /verif; ./check $id --tier ${TIER:-quick} 2>&1 | grep -a -E "VIOLATION|OK property|INCONCLUSIVE|violated|KNOWN" | head -5
git -C /repo checkout -- . 
