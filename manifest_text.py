# Human-written parts of MANIFEST.json, per property.
ENGINES = [
    dict(name="E4 p2p", path="harness/t_p2p, harness/votel", serves_properties=["C12", "C16", "C18", "C20"], kind_free_text="in-process libp2p (mocknet) with real servers/clients/pollers/subscribers/chain exchange, raw stream readers, scripted Byzantine responder, OpenTelemetry gauge rendez-vous for the polling loop"),
    dict(name="E6 inputs", path="harness/vec, harness/t_inputs, harness/t_sim", serves_properties=["C15", "C19"], kind_free_text="explicit EC block-tree model behind ec.Backend, manifest/certificate-history generators; simulator fault injection through adversary.Generator"),
    dict(name="E1 vnet", path="harness/vnet, harness/t_net", serves_properties=["C01", "C02", "C03", "C06", "C07"], kind_free_text="consensus world: real participants behind harness hosts, virtual clock, generated scheduler with fourteen profiles (incl. rotating laggard, generated rule sets, two-faced coalition), validate-then-queue deliveries, adaptive Byzantine coalition using an evidence pool (equivocation, stale evidence, supplemental-data variants, poison-next-instance, forged floods, greedy decider), runtime monitors, timely closing regime with stall detector; solo engine: one real participant under a non-equivocating puppet committee (ledger-backed justifications)"),
    dict(name="E7 cluster", path="harness/t_p2p/cluster_test.go", serves_properties=["C03", "C15"], kind_free_text="1-3 real F3 nodes end to end (gpbft runner, gossipsub, partial messages + chain exchange, certificate exchange, WAL, certificate store) over an EC model that follows a mock clock, generated manifests, optional node restart; state-based oracle on the certificates the nodes stored"),
    dict(name="E3 store", path="harness/vds, harness/t_store", serves_properties=["C09", "C10", "C11", "C17"], kind_free_text="deterministic fault-injecting datastore (write counting, crash after k writes, snapshot/restore, permutable query order) + rapid state machines against an in-memory store model"),
    dict(name="E2 structured", path="harness/t_certs, harness/t_msgs, harness/t_codec", serves_properties=["C04", "C05", "C13", "C14"], kind_free_text="grammar-directed rapid generators (vgen) + field-level corruption operators, differential against reference models (vref)"),
    dict(name="E5 arith", path="harness/t_arith", serves_properties=["C08"], kind_free_text="exhaustive loops + rapid generators over big-integer power tables and real tallies"),
]

PENDING = "check under construction in this session; will be claimed once its harness is committed"
NOT_APPLICABLE = {("C%02d" % i): PENDING for i in range(1, 21)}

TEXT = {
    "C12": dict(
        engine="E4 p2p",
        technique="property-based testing (rapid): generated request/receive/restart sequences on the real filter; stateful histories on a real F3 node observed by an observer peer and a pubsub event tracer, invariants over the publication history",
        level_text="(1) ~10^5 generated sequences per quick run on the real equivocation filter with restarts re-armed by replaying the accepted log in file order and permuted order. (2) Real F3 nodes (real WAL directory and certstore, own gossipsub, model EC, mock clock) driven through the public F3.Broadcast with conflicting validly signed messages, rebroadcast requests, graceful and abrupt restarts (optionally another EC head); an observer peer receives exactly what the node sends, and the node's pubsub event tracer snapshots the WAL directory with a fresh reader synchronously at every Publish. Invariants: one signature per (instance, sender, round, step); no older instance after a newer one; every published message was in the WAL when Publish was called.",
        level_note="Storage errors and a second node with the same identity are excluded by the statement (receives for this node's sender ids from other peers are not generated). Abrupt restart = old node abandoned, new node on the same datastore and path with a fresh libp2p host. Observation by the observer peer is asynchronous; a schedule-dependent failure is still reported with the history of the failing run.",
    ),
    "C16": dict(
        engine="E4 p2p",
        technique="property-based testing (rapid) over an in-process libp2p network: raw-stream differential against the store, scripted Byzantine responder vs a poller model",
        level_text="Generated stores and requests (boundary and overflowing first/limit values) against a real Server, read through a raw stream and through Client.Request, compared byte-for-byte with the store; a scripted Byzantine responder (forged, skipped, repeated, stale, under-quorum, wrong-delta, truncated items, mis-advertised pending instance, several rounds) polled by a real Poller whose store, NextInstance, PowerTable and status must equal a model that validates each wire item with the reference validator.",
        level_note="mocknet streams; harness signature scheme on both sides. A poller on an empty store starts at instance 0 (NewPoller cannot see the store's first instance), so such stores begin at 0.",
    ),
    "C18": dict(
        engine="E4 p2p",
        technique="stateful property-based testing (rapid) on a real PubSubChainExchange: validator verdicts per class, retrievability and retention obligations over the history",
        level_text="Generated histories of lookups, own broadcasts, remote broadcasts of every class pushed through the real pubsub validator and the discovered-chain cache, floods beyond the discovered capacity, prunes and progress changes. Obligations: returned chain has the requested key; just-admitted chain and prefixes retrievable; asked-for-then-admitted chains survive floods while wanted keys fit the wanted capacity (checked only after a flood, so that a lookup cannot mask how admission treated the request); prune removes exactly the lower instances.",
        level_note="Set semantics plus retention obligations, not an LRU clone. Capacities >= chain length. The synchronous path uses build-time accessors; the pubsub mesh between two hosts is not exercised.",
    ),
    "C20": dict(
        engine="E4 p2p",
        technique="property-based testing (rapid): single polling rounds vs store advancement; lock-step closed loop of the production run loop on a mock clock vs a shadow predictor",
        level_text="(1) Real Subscriber polling rounds against real servers with generated production and lagging peers: reported progress == store advancement. (2) The production run loop on a mock clock in lock-step with the harness through the loop's own interval gauge: each wait must equal the interval a shadow production predictor returns for the true store advancement (no extension is due because no mock time passes during requests); under steady production inside [min,max] the settled cadence is within a factor 2 of the period.",
        level_note="<= 3 peers (beyond that peer sampling uses the global math/rand). The gauge is an existing observation point recorded right after timer.Reset; a missing rendez-vous is inconclusive (exit 2).",
    ),
    "C11": dict(
        engine="E3 store",
        technique="stateful property-based testing (rapid) on a real directory + enumeration of torn-write offsets, against an in-memory WAL model",
        level_text="Generated histories of append (1 B - 400 KiB, crossing the 1 MiB rotation threshold) / Rotate / Close / Purge / reopen / crash / crash during an append with the first k bytes of the record written (every k for records <= 4 KiB in the thorough tier, boundary and sampled offsets otherwise). After every reopen and purge, All() must return exactly the acknowledged, unpurged entries, byte-identical, in append order per file, a torn entry only if complete; Purge keeps every entry at or above the epoch and removes every closed file entirely below it.",
        level_note="fsync reaching the medium is assumed (no power-cut simulator below the file system): the check decides recovery logic at file-content level. File names come from the wall clock inside the code; the harness learns them from the directory listing.",
    ),
    "C14": dict(
        engine="E2 structured",
        technique="property-based testing (rapid): differential against independent encoders, metamorphic field perturbation, codec round trips, structural mutation fuzzing of valid encodings with allocation measurement",
        level_text="Signing bytes and VRF inputs equal an independent implementation of the documented layout and change under each of 15 single-field perturbations; chain keys from Key / KeysForPrefixes / AllPrefixes / Prefix(i).Key equal an independent merkle computation for every prefix of every length 1..128 (deterministic sweep + generated chains with 760-byte keys); all 16 wire/storage types round-trip through raw CBOR, encoding.CBOR and encoding.ZSTD field-wise and byte-wise; mutated encodings (truncate, flip, inflated length headers, splice, append) and over-expanding zstd frames never panic, never decode a strict prefix, never allocate beyond 64 MiB.",
        level_note="Independent encoders live in harness/vref (keccak/blake2b from x/crypto). Allocation = runtime.MemStats.TotalAlloc around one decode. Native coverage-guided fuzzing is not part of the quick tier.",
    ),
    "C15": dict(
        engine="E6 inputs",
        technique="property-based testing (rapid): generated EC block trees, certificate histories and manifests vs an explicit EC reference model; metamorphic invariance of committees",
        level_text="The node's consensus-inputs component runs over a model ec.Backend (null rounds, forks before/at/after the base, head behind the base, 260-tipset chains), a real certstore with generated certificate histories, generated manifests and clock positions. GetProposal must equal the model's chain exactly and commit to the next committee; GetCommittee must equal the look-back rule (table and beacon) and must not change when only head, forks and clock change.",
        level_note="The unexported component is constructed through a build-time accessor. The bootstrap tipset is final by assumption (no fork branches off before the requested bootstrap epoch). Committee look-back >= 2.",
    ),
    "C19": dict(
        engine="E6 inputs",
        technique="property-based testing (rapid): fault injection through the simulator's host interface vs 'error iff invalid'; differential certchain vs node rule over the EC model",
        level_text="(a) sim.Simulation runs with a harness adversary that hands the simulator forged / under-powered / mis-labelled decisions (and a conflicting fully signed decision for an honest participant): Run must fail iff something invalid was injected, clean controls pass. (b) certchain over the model EC: committees equal the node rule, certificates commit to those committees, validate, are accepted by a real store, and the node's GetCommittee over that store agrees.",
        level_note="(a) uses the simulator's own fake signing backend (any member key can sign), under-powered subsets are only asserted when below 2/3 by scaled and raw power. (b) EC model without null rounds.",
    ),
    "C06": dict(
        engine="E1 vnet",
        technique="property-based testing (rapid): generated pre-stabilisation schedules and Byzantine histories followed by a harness-owned timely regime; bounded-liveness oracle",
        level_text="Generated pre-stabilisation prefix (arbitrary delay/reorder/duplication, staggered starts, crash-silent members, gate/laggard schedules that drive participants several rounds apart, Byzantine history below one third, no loss between honest participants), then the timely regime owned by the harness (time-ordered delivery within Delta, alarms on time, silent coalition, honest strong quorum). Violation = an honest participant exceeds round R+6 (no Byzantine message ever) / R+40 before every started honest participant decided, or the system is quiescent without a decision. Bounded liveness is the most this technique can decide about 'eventually'.",
        level_note="The bound is taken from the property statement. Step-budget exhaustion is inconclusive, never a violation. Back-off exponent capped (1.5 / 1.3) and prefix rounds capped at 12 so that timeouts fit time.Duration.",
    ),
    "C01": dict(
        engine="E1 vnet",
        technique="property-based testing (rapid) of generated schedules and adaptive <1/3 Byzantine strategies on real gpbft.Participants; invariant over the history of reported decisions",
        level_text="Generated exploration: every delivery, duplicate, drop, timer firing, staggered start and Byzantine emission is a generated choice (six scheduler profiles, per-destination equivocation, justifications assembled from observed honest signatures plus the coalition's own keys, strictly below one third of scaled power) over generated power tables, EC-tree inputs and 1-3 consecutive instances; oracle: all honest decisions of an instance are equal, one decision per participant. Exploration, not exhaustion: the evidence reports the depth reached (round histogram, sways, skips, accepted Byzantine traffic).",
        level_note="Trusted base: vcrypto (the coalition only signs with its own keys and re-uses observed signatures), the harness host. Participants are driven only through their public API. Deep multi-round attacks are reached only as far as the label histogram shows.",
    ),
    "C02": dict(
        engine="E1 vnet",
        technique="property-based testing (rapid) of generated schedules/adversaries; per-decision validity predicate; metamorphic unanimous mode",
        level_text="Same worlds as C01 with forked inputs at every depth, chains to the 128 maximum in the thorough tier, foreign-base and foreign-branch chains injected by the coalition. Oracle: every honest decision is non-empty, starts at the base the participant's GetProposal returned, and is a prefix of some honest input; unanimous timely mode (no faulty sender, identical inputs, honest strong quorum): the common input itself is decided.",
        level_note="Trusted base as C01. The unanimous sub-property is run as a separate generator mode whose whole execution is the time-ordered closing regime.",
    ),
    "C03": dict(
        engine="E1 vnet",
        technique="property-based testing (rapid): every decision of every explored execution checked against an independent proof verifier and certificate validation",
        level_text="For every decision reported in the C01 worlds (tables that change between instances, zero-scaled members): justification fields, strictly increasing in-range non-zero signers forming a strong quorum (scaled powers recomputed with math/big), aggregate over the independently encoded DECIDE payload of exactly the decided value; NewFinalityCertificate with MakePowerTableDiff(cur,next) is accepted by ValidateFinalityCertificates and by the reference validator on a node that holds only the table, returning instance+1, the decided suffix and the next table.",
        level_note="Trusted base: vcrypto, harness/vref. Real BLS aggregation is not exercised.",
    ),
    "C07": dict(
        engine="E1 vnet",
        technique="property-based testing (rapid) with per-emission runtime monitors over generated schedules/adversaries (invariants over the delivery history of each participant)",
        level_text="Monitors for clauses (a)-(h) run on every emission and every API call of every honest participant in all generated worlds, fed by exactly what that participant's ValidateMessage accepted before each ReceiveMessage. Votes of equivocating or foreign-base senders are ambiguous by design of the implementation's de-duplication; clauses are evaluated for every admissible tally and fail only if none satisfies them, so the monitors never blame the code for a vote it was entitled to ignore.",
        level_note="Trusted base: vcrypto, harness/vref validator and quorum arithmetic. PREPARE deadlines are taken from the SetAlarm made in the same API call right before the broadcast. Ticket ranks use the public ComputeTicketRank.",
    ),
    "C09": dict(
        engine="E3 store",
        technique="stateful property-based testing (rapid): operation histories on the real store vs an in-memory reference model, all observables compared after every step; -race stress for readers/writers",
        level_text="Generated operation histories (create/open variants, 13 kinds of put, range reads, subscribe/read, reopen) on a real certstore.Store over a deterministic datastore; after every step Latest, every Get, every GetPowerTable in [first-1, next+1] and sampled GetRange are compared with the model (table = initial table + all earlier deltas, computed independently), including real crossings of the 1440-instance checkpoint boundary. Writers are watched for blocking on idle subscribers. Concurrent readers/subscribers against a writer under -race.",
        level_note="Trusted base: harness datastore (sorted map), reference delta application and table CID in harness/vref. Signatures are not checked by the store by design. The concurrent part does not control the scheduler.",
    ),
    "C10": dict(
        engine="E3 store",
        technique="fault enumeration: every datastore-write prefix of every store operation, generated histories (rapid), reopen with each open variant vs before/after model state",
        level_text="For generated pre-states, each of CreateStore / OpenOrCreateStore / Put / DeleteAll is first run on a write-counting datastore, then re-run from the same pre-state once per crash point k in [0, n] (exhaustive per operation), with generated permutations of the wipe order. The surviving map is reopened with OpenStore and OpenOrCreateStore and must equal the model before or after the operation; an interrupted wipe must be completed by reopen; the operation must be repeatable.",
        level_note="Crash = datastore refuses every write from the k-th on; single Put/Delete are assumed atomic; orphan certificates above the latest pointer are not observable state (Get is compared for i <= latest only).",
    ),
    "C17": dict(
        engine="E3 store",
        technique="property-based testing (rapid): export/import round trip vs model, block- and byte-level snapshot corruption vs a model importer",
        level_text="Generated stores and export end points: the clean export must import into an empty datastore and open observationally identical to the exporter up to the end point, with digest = blake2b-256 CID of the bytes; each corrupted variant (19 operators: truncation at every boundary/inner offset, drop/dup/swap/append blocks, header and certificate edits, contradicting manifest, garbage tail) is decided by a model importer written from the statement; what the format does not commit to is counted as masked, not asserted. Failed imports must leave no latest pointer.",
        level_note="Import does not verify signatures (outside the statement). Table corruption must be rejected only at checkpoints and at the end, where the format commits to a table.",
    ),
    "C04": dict(
        engine="E2 structured",
        technique="property-based testing (rapid): grammar-built certificate chains x corruption operators, differential against an independent reference validator; algebraic delta laws",
        level_text="Generated exploration: honest certificate chains over evolving power tables, one of ~45 corruption operators and a generated validation context per case, compared in both directions (accept iff reference accepts; exact next-instance/chain/table of the valid prefix) with a reference validator written from the statement (own payload encoding, own merkle key, own table CID, own delta application). Delta laws (Make/Apply round trip, canonical form, uniqueness, input immutability) on generated table pairs and near-valid deltas. Sampling is the right level: the input space is unbounded; the evidence lists per-operator counts.",
        level_note="Trusted base: harness signature scheme vcrypto (unforgeability by construction), reference models in harness/vref, go-bitfield and go-cid libraries. Real BLS is not exercised here. The zero-certificate call is outside the statement and is not asserted.",
    ),
    "C05": dict(
        engine="E2 structured",
        technique="property-based testing (rapid): message grammar x corruption operators x progress states vs reference validator; stateful histories warm-vs-fresh; -race stress for concurrent validation",
        level_text="Generated exploration of (message, committee, progress, look-back) against an independent reference validator plus the documented relevance window: accepted => valid; valid and relevant => accepted; valid => never ErrValidationInvalid. History independence: every verdict of a long-lived participant with 1-4 entry caches equals that of a fresh participant for the same input, over generated histories with repeats and forged twins of accepted messages. Concurrent validation from 8-32 goroutines equals sequential verdicts (also built with -race).",
        level_note="Trusted base: vcrypto, harness/vref message validator. Progress is injected through a build-time accessor that writes only the participant's atomic progression. The Go scheduler is not controlled: the concurrent part is a stress run, not an enumeration of interleavings.",
    ),
    "C13": dict(
        engine="E2 structured",
        technique="property-based testing (rapid): differential two-stage vs one-shot validation over generated (message, announced key, completing chain, cache history)",
        level_text="Generated exploration: messages stripped by the production ToPartialGMessage (or un-stripped), announced keys (matching/zero/other/random, optionally re-signed by the sender), completing chains (original/prefix/sibling/foreign/bottom), in generated order on one participant sharing its cache between both paths. Oracle: two-stage accepts iff key == Key(chain) and one-shot validation of the completed message accepts on a fresh participant (soundness only for un-stripped forms); strip+complete round trip is field- and byte-identical.",
        level_note="Trusted base: vcrypto; one-shot validation as comparison point is itself decided by C05. Completion uses the production inference function through a build-time accessor.",
    ),
    "C08": dict(
        engine="E5 arith",
        technique="exhaustive enumeration of the 16-bit domain + property-based testing (rapid) against big-integer oracles",
        level_text="Exhaustive over all 2^31 (part, whole) pairs of the scaled-power domain for the threshold, weak-quorum and intersection facts; generated exploration for int64 overflow, power-table scaling (order, range, sum, agreement between PowerEntries.Scaled, PowerTable.Add and an independent big-integer floor) and for real tallies fed votes of known weight (could-reach soundness by brute force). Exhaustive is the right level where the domain is finite; the rest is sampled because tables and vote histories are unbounded.",
        level_note="Trusts Go integer arithmetic and math/big; tables are well-formed as PowerTable.Add requires. The unexported predicates are reached through build-time injected accessors (tag verif).",
    ),
}


# Additions made while working through independently seeded changes (appended to level_text).
ADDENDA = {
    "C01": " Added: profiles rotlag / rules / laggard variants, validate-then-queue deliveries (host queue model), coalition replaying stale evidence and sending supplemental-data variants, DECIDE-level greedy decider (every decidable value is turned into a real decision of some undecided participant), forged DECIDE floods with repetition; a third of the worlds deliver every message through the production two-stage path (strip, partial validation, completion, full validation); coalition action transplanting a genuine quorum onto a vote for a foreign chain.",
    "C02": " Added: rotating-laggard profile with a coalition that keeps pushing one foreign chain with genuine COMMIT-bottom evidence; an honest participant with a diverged base view (same key and epoch, other power-table CID) in 12% of worlds; validate-then-queue deliveries; inputs of 125-137 tipsets (around and beyond the maximum chain length) in 1 of 40 quick worlds; a third of the worlds deliver every message through the two-stage validation path, with a coalition that reuses a genuine PREPARE quorum as the justification of a COMMIT for a foreign chain.",
    "C03": " Added: solo engine (one real participant under a non-equivocating puppet committee, decisions checked as proofs); supplemental-data variants of coalition votes; cluster engine: 1-3 real F3 nodes end to end, the certificates stored by the host's own decision path (committees, delta, self-validation, Put) are validated with the reference and the production validator and compared across nodes; a node that terminated an instance must hold its certificate; an honest participant whose base or supplemental data diverges from the network's (it must refuse everything it hears; whatever it reports is judged against its own view).",
    "C06": " Added: up to 3 instances, coalition action poison-next-instance (queued round-0 vote that fails late-binding validation), stall detector in the closing phase (decided participants have nothing in flight and for longer than any phase timeout of the rounds reached nothing changed); inputs around and beyond the maximum chain length.",
    "C07": " Added: solo engine (single votes, quorum bursts, advance, lure actions; skips in 44% and sways in 21% of cases, all non-defensive branches of the state machine covered), scripted regression scenarios for the two gpbft fixes, diverged-base participant, validate-then-queue deliveries.",
    "C08": " Added: powers of every bit length 1..130 with extra weight at machine-word boundaries; every table also built by several Add calls in a generated order (consistency after every call, equality with the table built at once).",
    "C09": " Added: long histories through the public API (1026-1700 certificates in quick, to 4500 in thorough): power tables at offsets 1022-1027 and 1438/1439 past every stored table, ranges of length 1023-1441 and ranges running past the end, both reopen variants; 2-4 concurrent writers racing different certificates for the same next instance (what is served once never changes, no certificate key rewritten).",
    "C10": " Added: CreateStore as a third way of reopening the surviving map (refused while a store exists; otherwise a fresh store that keeps a certificate across the next restart).",
    "C11": " Added: the model learns which file received an entry from the directory (no mirror of the rotation rule); histories continue from a tail torn strictly inside a record (appends, rotations, purges and restarts behind it); appends whose encoder fails after a generated number of bytes (refused, must leave no trace).",
    "C12": " Added: node action torn-crash-restart (a strict prefix of a record left at the end of the newest WAL file before an abrupt restart); after a restart half of the requests conflict with an earlier request of the same slot; rounds {0,1,5,6,7,13}; node action big-burst (14 identities vote for a maximum-size chain: one WAL file grows past 1 MiB and rolls over); rebroadcast requests aimed at the slots of earlier requests.",
    "C14": " Added: overlimit operator (an independent CBOR walker locates every array/map/string header of a valid encoding; one is replaced by a header announcing 2^31..2^64-1: decoding must fail); JSON round trips of tipsets, chains, supplemental data, payloads and certificates; boundary-size chains (100-128 tipsets with 760-byte keys); decoding into a value that already held another chain whose key had been read (raw and through the encoding package): every derived datum must be that of the decoded chain; Append on a prefix object handed out by AllPrefixes / Prefix must leave the parent chain, the sibling objects and their cached keys intact.",
    "C15": " Added: metamorphic deep-reorg variant (the EC view forks off before the bootstrap tipset while certificates are stored); cluster engine: certificates stored by real nodes must start at the previous head, run along EC parent links with EC's table CIDs, carry the delta between the node-rule committees and commit to the next one; the EC backend serves power tables in any member order; the inputs object is reused across instances and asked again after the EC head moved.",
    "C16": " Added: stores with an orphan certificate above the latest pointer; certificates put into the poller's own store before a poll; the client against a scripted responder (shifted, repeated, skipped, over-limit runs, garbage tail): only the in-sequence prefix within the limit is delivered; tables of 100-8192 members with deltas of up to 3000 entries through the real server and client; the polling node's own store advancing while a request is in flight.",
    "C17": " Added: tables of 50-8192 members with deltas of up to 5000 entries; corruptions that keep the block count (a block overwritten by a copy of another, a repeated certificate paying for a dropped one, a dropped one paid for by a surplus one at the end).",
    "C18": " Added: re-broadcasts of known chains and chains sharing a proper prefix; timestamps far outside the window across the whole int64 range; caches of 128-160 entries per instance with chains of 100-128 tipsets (1 case in 40).",
    "C19": " Added: invalid decisions reported for a past instance; decisions whose header claims another phase/round than the quorum signed; CertChain.Validate must accept chains built under the node's committee rule and reject a certificate signed by another instance's committee.",
    "C20": " Added: slow-peer rounds (mock time passes while a request is held, sometimes past the interval): interval <= poll-to-poll <= max(interval, request) + min(request, interval/2); certificates stored locally while a request is in flight, judged against every admissible attribution of that progress to rounds.",
}
