# Human-written parts of MANIFEST.json, per property.
ENGINES = [
    dict(name="E5 arith", path="harness/t_arith", serves_properties=["C08"], kind_free_text="exhaustive loops + rapid generators over big-integer power tables and real tallies"),
]

PENDING = "check under construction in this session; will be claimed once its harness is committed"
NOT_APPLICABLE = {("C%02d" % i): PENDING for i in range(1, 21)}

TEXT = {
    "C08": dict(
        engine="E5 arith",
        technique="exhaustive enumeration of the 16-bit domain + property-based testing (rapid) against big-integer oracles",
        level_text="Exhaustive over all 2^31 (part, whole) pairs of the scaled-power domain for the threshold, weak-quorum and intersection facts; generated exploration for int64 overflow, power-table scaling (order, range, sum, agreement between PowerEntries.Scaled, PowerTable.Add and an independent big-integer floor) and for real tallies fed votes of known weight (could-reach soundness by brute force). Exhaustive is the right level where the domain is finite; the rest is sampled because tables and vote histories are unbounded.",
        level_note="Trusts Go integer arithmetic and math/big; tables are well-formed as PowerTable.Add requires. The unexported predicates are reached through build-time injected accessors (tag verif).",
    ),
}
