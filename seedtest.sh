#!/bin/bash
# usage: seedtest.sh <patch.diff> <ID> [tier]   (development aid, not a registered check)
# Applies a seeded change to a scratch worktree of /repo (never /repo itself), runs ./check <ID>
# against it through VERIF_REPO, prints the verdict lines and removes the worktree.
set -u
patch=$(readlink -f "$1"); id=$2; tier=${3:-quick}
wt=$(mktemp -d /tmp/seedrun.XXXXXX)
git -C /repo worktree add --detach "$wt" HEAD >/dev/null 2>&1 || { echo "worktree failed"; exit 3; }
if ! git -C "$wt" apply "$patch" 2>/dev/null; then
  # seeded changes were written against an earlier /repo commit: fall back to the commit recorded
  # next to the patch (base_commit in meta.json) or to the last commit before this session's fix
  base=$(python3 -c "import json,sys,os;print(json.load(open(os.path.join(os.path.dirname(sys.argv[1]),'meta.json'))).get('base_commit',''))" "$patch" 2>/dev/null)
  base=${base:-c6dbc56}
  git -C /repo worktree remove --force "$wt" >/dev/null 2>&1
  git -C /repo worktree add --detach "$wt" "$base" >/dev/null 2>&1 || { echo "worktree failed"; exit 3; }
  if ! git -C "$wt" apply "$patch"; then echo "PATCH DOES NOT APPLY"; git -C /repo worktree remove --force "$wt"; exit 3; fi
  echo "(applied on base commit $base)"
fi
cd /verif
VERIF_REPO="$wt" ./check "$id" --tier "$tier" > "$wt.log" 2>&1; rc=$?
grep -a -E "^(VIOLATION|OK property|INCONCLUSIVE|KNOWN-FINDING)|VERIF-FAIL" "$wt.log" | sort | uniq -c | head -8
echo "exit=$rc log=$wt.log"
b=/verif/build/alt-$(python3 -c "import hashlib,sys;print(hashlib.sha1(sys.argv[1].encode()).hexdigest()[:8])" "$wt")
rm -rf "$b"
git -C /repo worktree remove --force "$wt"
exit $rc
