// Package vec is the reference EC model: an explicit block tree with null
// rounds, forks, timestamps, beacons and a power table per tipset. It
// implements the public ec.Backend interface for the code under test and
// answers the same questions directly for the oracles.
package vec

import (
	"context"
	"sort"
	"errors"
	"fmt"
	"sync"
	"time"

	"github.com/filecoin-project/go-f3/ec"
	"github.com/filecoin-project/go-f3/gpbft"
)

type TS struct {
	E      int64
	K      []byte
	B      []byte
	T      time.Time
	Parent *TS
	Table  gpbft.PowerEntries
}

func (t *TS) Key() gpbft.TipSetKey { return t.K }
func (t *TS) Beacon() []byte       { return t.B }
func (t *TS) Epoch() int64         { return t.E }
func (t *TS) Timestamp() time.Time { return t.T }
func (t *TS) String() string       { return fmt.Sprintf("ts@%d", t.E) }

var _ ec.TipSet = (*TS)(nil)

type Model struct {
	mu    sync.Mutex
	ByKey map[string]*TS
	// Now and Main, when set, make the head follow a clock: the head is the last tipset of
	// Main whose timestamp is not after Now()
	Now  func() time.Time
	Main []*TS
	// Order: how GetPowerTable lists the members ("" = as stored, "by-id" ascending actor id,
	// "reverse" = stored order reversed). ec.Backend promises no order.
	Order string
	Head *TS
	Finalized [][]byte
	Calls     map[string]int
}

var _ ec.Backend = (*Model)(nil)

func New() *Model { return &Model{ByKey: map[string]*TS{}, Calls: map[string]int{}} }

func (m *Model) Add(ts *TS) *TS {
	m.mu.Lock()
	defer m.mu.Unlock()
	m.ByKey[string(ts.K)] = ts
	return ts
}

// SetHead moves the EC head (safe while a node is using the model).
func (m *Model) SetHead(ts *TS) {
	m.mu.Lock()
	defer m.mu.Unlock()
	m.Head = ts
}

func (m *Model) GetTipsetByEpoch(_ context.Context, epoch int64) (ec.TipSet, error) {
	m.mu.Lock()
	defer m.mu.Unlock()
	m.Calls["GetTipsetByEpoch"]++
	ts := m.atEpoch(epoch)
	if ts == nil {
		return nil, fmt.Errorf("no tipset at or before epoch %d on the head chain", epoch)
	}
	return ts, nil
}

// AtEpoch: the tipset of the head's chain at epoch, or the latest one before
// it if that epoch is null; nil if the epoch lies beyond the head.
func (m *Model) AtEpoch(epoch int64) *TS {
	m.mu.Lock()
	defer m.mu.Unlock()
	return m.atEpoch(epoch)
}

func (m *Model) head() *TS {
	if m.Now == nil || len(m.Main) == 0 {
		return m.Head
	}
	now := m.Now()
	h := m.Main[0]
	for _, ts := range m.Main {
		if ts.T.After(now) {
			break
		}
		h = ts
	}
	return h
}

func (m *Model) atEpoch(epoch int64) *TS {
	head := m.head()
	if head == nil || epoch > head.E {
		return nil
	}
	cur := head
	for cur != nil && cur.E > epoch {
		cur = cur.Parent
	}
	return cur
}

func (m *Model) GetTipset(_ context.Context, k gpbft.TipSetKey) (ec.TipSet, error) {
	m.mu.Lock()
	defer m.mu.Unlock()
	m.Calls["GetTipset"]++
	ts, ok := m.ByKey[string(k)]
	if !ok {
		return nil, errors.New("unknown tipset")
	}
	return ts, nil
}

func (m *Model) GetHead(context.Context) (ec.TipSet, error) {
	m.mu.Lock()
	defer m.mu.Unlock()
	m.Calls["GetHead"]++
	h := m.head()
	if h == nil {
		return nil, errors.New("no head")
	}
	return h, nil
}

func (m *Model) GetParent(_ context.Context, t ec.TipSet) (ec.TipSet, error) {
	m.mu.Lock()
	defer m.mu.Unlock()
	m.Calls["GetParent"]++
	ts, ok := m.ByKey[string(t.Key())]
	if !ok || ts.Parent == nil {
		return nil, errors.New("no parent")
	}
	return ts.Parent, nil
}

func (m *Model) GetPowerTable(_ context.Context, k gpbft.TipSetKey) (gpbft.PowerEntries, error) {
	m.mu.Lock()
	defer m.mu.Unlock()
	m.Calls["GetPowerTable"]++
	ts, ok := m.ByKey[string(k)]
	if !ok {
		return nil, errors.New("unknown tipset")
	}
	return Permute(ts.Table, m.Order), nil
}

func (m *Model) Finalize(_ context.Context, k gpbft.TipSetKey) error {
	m.mu.Lock()
	defer m.mu.Unlock()
	m.Finalized = append(m.Finalized, k)
	return nil
}

// IsAncestor reports whether a is b or an ancestor of b.
func IsAncestor(a, b *TS) bool {
	for cur := b; cur != nil; cur = cur.Parent {
		if cur == a {
			return true
		}
		if cur.E < a.E {
			return false
		}
	}
	return false
}

// Path returns (base, ..., head] along parents; ok=false if base is not an
// ancestor of head.
func Path(base, head *TS) ([]*TS, bool) {
	var rev []*TS
	for cur := head; cur != nil; cur = cur.Parent {
		if cur == base {
			out := make([]*TS, len(rev))
			for i := range rev {
				out[i] = rev[len(rev)-1-i]
			}
			return out, true
		}
		rev = append(rev, cur)
	}
	return nil, false
}


// Permute returns a copy of entries in the order the backend serves them.
func Permute(entries gpbft.PowerEntries, order string) gpbft.PowerEntries {
	out := make(gpbft.PowerEntries, len(entries))
	copy(out, entries)
	switch order {
	case "by-id":
		sort.Slice(out, func(i, j int) bool { return out[i].ID < out[j].ID })
	case "reverse":
		for i, j := 0, len(out)-1; i < j; i, j = i+1, j-1 {
			out[i], out[j] = out[j], out[i]
		}
	}
	return out
}
