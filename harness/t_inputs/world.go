package t_inputs

import (
	"context"
	"fmt"
	"time"

	f3 "github.com/filecoin-project/go-f3"
	"github.com/filecoin-project/go-f3/certs"
	"github.com/filecoin-project/go-f3/certstore"
	"github.com/filecoin-project/go-f3/gpbft"
	"github.com/filecoin-project/go-f3/internal/clock"
	"github.com/filecoin-project/go-f3/manifest"
	"github.com/filecoin-project/go-f3/verifharness/vcrypto"
	"github.com/filecoin-project/go-f3/verifharness/vds"
	"github.com/filecoin-project/go-f3/verifharness/vec"
	"github.com/filecoin-project/go-f3/verifharness/vgen"
	"github.com/filecoin-project/go-f3/verifharness/vref"
	"pgregory.net/rapid"
)

var t0 = time.Unix(1_600_000_000, 0)

type world struct {
	m       manifest.Manifest
	ec      *vec.Model
	main    []*vec.TS
	boot    *vec.TS
	certs   []*certs.FinalityCertificate
	heads   []*vec.TS // heads[j] = head finalized by certificate j
	store   *certstore.Store
	clk     *clock.Mock
	headMod string
}

// committeeTS is the model's look-back rule: the tipset whose table and beacon
// define the committee of instance i (nil if the needed certificate is missing).
func (w *world) committeeTS(i uint64) *vec.TS {
	init, L := w.m.InitialInstance, w.m.CommitteeLookback
	if i < init+L {
		return w.boot
	}
	j := i - L - init
	if j >= uint64(len(w.heads)) {
		return nil
	}
	return w.heads[j]
}

func mkTS(epoch int64, tag string, parent *vec.TS, table gpbft.PowerEntries, period time.Duration, keyLen int) *vec.TS {
	return &vec.TS{E: epoch, K: vgen.DetBytes(keyLen, "tsk", tag, epoch), B: vgen.DetBytes(16, "beacon", tag, epoch), T: t0.Add(time.Duration(epoch) * period), Parent: parent, Table: table}
}

// ecOrder is the order in which the current world's EC backend lists power-table members: a
// tipset carries the CID of EC's table as EC serves it (committees and supplemental data are
// canonical whatever EC does).
var ecOrder string

func toGpbft(ts *vec.TS) *gpbft.TipSet {
	return &gpbft.TipSet{Epoch: ts.E, Key: ts.K, PowerTable: vref.TableCID(vec.Permute(ts.Table, ecOrder))}
}

// genManifest draws a manifest that passes Validate.
func genManifest(t *rapid.T, maxLookback int) manifest.Manifest {
	m := manifest.LocalDevnetManifest()
	m.NetworkName = "vnet"
	m.InitialInstance = rapid.OneOf(rapid.Uint64Range(0, 3), rapid.Uint64Range(100, 2000)).Draw(t, "initial")
	m.EC.Finality = int64(rapid.IntRange(0, 5).Draw(t, "finality"))
	m.BootstrapEpoch = m.EC.Finality + int64(rapid.IntRange(0, 12).Draw(t, "bootextra"))
	m.EC.Period = 30 * time.Second
	m.EC.HeadLookback = rapid.IntRange(0, 5).Draw(t, "headlookback")
	m.Gpbft.ChainProposedLength = rapid.OneOf(rapid.IntRange(1, 6), rapid.IntRange(1, 150)).Draw(t, "proposedlen")
	if m.ChainExchange.MaxChainLength < m.Gpbft.ChainProposedLength {
		m.ChainExchange.MaxChainLength = m.Gpbft.ChainProposedLength
	}
	m.CommitteeLookback = uint64(rapid.IntRange(2, maxLookback).Draw(t, "lookback")) // with look-back 1 a node cannot derive the next committee before deciding
	if m.ChainExchange.MaxInstanceLookahead > m.CommitteeLookback {
		m.ChainExchange.MaxInstanceLookahead = m.CommitteeLookback
	}
	if err := m.Validate(); err != nil {
		t.Fatalf("HARNESS: generated manifest invalid: %v", err)
	}
	return m
}

// genWorld draws EC tree, certificate history and head position.
func genWorld(t *rapid.T, nulls bool, mainLen int) *world {
	w := &world{m: genManifest(t, 6), ec: vec.New(), clk: clock.NewMock()}
	// the EC backend may list power-table members in any order
	w.ec.Order = rapid.SampledFrom([]string{"", "", "by-id", "reverse"}).Draw(t, "ecorder")
	ecOrder = w.ec.Order
	period := w.m.EC.Period
	table := vgen.Entries(t, "tbl", 1, 6).Entries
	var prev *vec.TS
	epoch := int64(0)
	for i := 0; i < mainLen; i++ {
		if i > 0 && rapid.IntRange(0, 5).Draw(t, "evolve") == 0 {
			table = vgen.Evolve(t, "ev", table, 2)
		}
		kl := 8
		if rapid.IntRange(0, 30).Draw(t, "bigkey") == 0 {
			kl = 760
		}
		ts := mkTS(epoch, "main", prev, table, period, kl)
		w.ec.Add(ts)
		w.main = append(w.main, ts)
		prev = ts
		epoch++
		if nulls && rapid.IntRange(0, 4).Draw(t, "null") == 0 {
			epoch += int64(rapid.IntRange(1, 3).Draw(t, "nullgap"))
		}
	}
	w.ec.Head = prev
	w.boot = w.ec.AtEpoch(w.m.BootstrapEpoch - w.m.EC.Finality)
	if w.boot == nil {
		t.Fatalf("HARNESS: no bootstrap tipset")
	}
	return w
}

func (w *world) mainIndex(ts *vec.TS) int {
	for i, x := range w.main {
		if x == ts {
			return i
		}
	}
	return -1
}

// buildCerts creates k certificates along the main chain following the node's
// committee rule and stores them in a real certificate store.
func (w *world) buildCerts(t *rapid.T, k int) {
	ctx := context.Background()
	ds := vds.New()
	st, err := certstore.CreateStore(ctx, ds, w.m.InitialInstance, w.boot.Table)
	if err != nil {
		t.Fatalf("HARNESS: create store: %v", err)
	}
	w.store = st
	base := w.boot
	for j := 0; j < k; j++ {
		inst := w.m.InitialInstance + uint64(j)
		bi := w.mainIndex(base)
		adv := rapid.IntRange(0, 3).Draw(t, "advance")
		if bi+adv >= len(w.main)-1 {
			adv = 0
		}
		head := w.main[bi+adv]
		w.heads = append(w.heads, head)
		ts := []*gpbft.TipSet{}
		for x := bi; x <= bi+adv; x++ {
			ts = append(ts, toGpbft(w.main[x]))
		}
		cur := w.committeeTS(inst).Table
		next := w.committeeTS(inst + 1).Table
		c := &certs.FinalityCertificate{
			GPBFTInstance:    inst,
			ECChain:          &gpbft.ECChain{TipSets: ts},
			SupplementalData: gpbft.SupplementalData{PowerTable: vref.TableCID(vref.Canonical(next))},
			PowerTableDelta:  vref.MakeDiff(cur, next),
		}
		vgen.SignCert(w.m.NetworkName, cur, c, vgen.SignerSet(t, "sig", cur, "minimal"))
		if err := st.Put(ctx, c); err != nil {
			t.Fatalf("HARNESS: put cert %d: %v", inst, err)
		}
		w.certs = append(w.certs, c)
		base = head
	}
}

// placeHead draws where the EC head is relative to the finalized base.
func (w *world) placeHead(t *rapid.T, base *vec.TS) {
	bi := w.mainIndex(base)
	mode := rapid.SampledFrom([]string{"ahead", "ahead", "ahead-far", "at-base", "behind", "fork-before", "fork-at", "fork-after"}).Draw(t, "headmode")
	period := w.m.EC.Period
	need := w.m.BootstrapEpoch - w.m.EC.Finality
	fork := func(from *vec.TS, n int, tag string) *vec.TS {
		// the bootstrap tipset is final by assumption: no fork may branch off before the
		// requested bootstrap epoch (it would change which tipset that epoch resolves to)
		for from.E < need {
			i := w.mainIndex(from)
			if i < 0 || i+1 >= len(w.main) {
				break
			}
			from = w.main[i+1]
		}
		cur := from
		e := from.E
		for i := 0; i < n; i++ {
			e += int64(1 + rapid.IntRange(0, 1).Draw(t, "forkgap"))
			ts := mkTS(e, tag, cur, from.Table, period, 8)
			w.ec.Add(ts)
			cur = ts
		}
		return cur
	}
	switch mode {
	case "ahead":
		w.ec.Head = w.main[min(len(w.main)-1, bi+rapid.IntRange(0, 8).Draw(t, "aheadby"))]
	case "ahead-far":
		w.ec.Head = w.main[len(w.main)-1]
	case "at-base":
		w.ec.Head = base
	case "behind":
		if bi == 0 || bi-1 < w.mainIndex(w.boot) {
			w.ec.Head = base
			mode = "at-base"
		} else {
			w.ec.Head = w.main[rapid.IntRange(max(0, w.mainIndex(w.boot)), bi-1).Draw(t, "behindidx")]
			if w.ec.Head == base {
				mode = "at-base"
			}
		}
	case "fork-before":
		lo := w.mainIndex(w.boot)
		if bi <= lo {
			w.ec.Head = base
			mode = "at-base"
		} else {
			from := w.main[rapid.IntRange(lo, bi-1).Draw(t, "forkfrom")]
			w.ec.Head = fork(from, (bi-w.mainIndex(from))+rapid.IntRange(1, 4).Draw(t, "forklen"), "forkB")
		}
	case "fork-at":
		if base.Parent == nil || bi <= w.mainIndex(w.boot) {
			w.ec.Head = base
			mode = "at-base"
		} else {
			// a sibling of the base, extended
			w.ec.Head = fork(base.Parent, 1+rapid.IntRange(0, 3).Draw(t, "forklen"), "forkA")
		}
	case "fork-after":
		from := w.main[min(len(w.main)-1, bi+rapid.IntRange(0, 2).Draw(t, "forkfrom"))]
		w.ec.Head = fork(from, rapid.IntRange(1, 5).Draw(t, "forklen"), "forkC")
	}
	// precondition of a running node: the EC head has reached the bootstrap epoch minus finality
	if w.ec.Head.E < need {
		for _, ts := range w.main {
			if ts.E >= need {
				w.ec.Head = ts
				break
			}
		}
		mode = "clamped-to-bootstrap"
	}
	w.headMod = mode
	// clock relative to the head's timestamp
	off := rapid.SampledFrom([]time.Duration{0, period / 2, period - time.Nanosecond, period, 2 * period, 20 * period}).Draw(t, "clockoffset")
	w.clk.Set(w.ec.Head.T.Add(off))
}

// expectedProposal is the model's answer for GetProposal(instance).
func (w *world) expectedProposal(instance uint64) (*gpbft.ECChain, gpbft.SupplementalData, string) {
	var base *vec.TS
	if instance == w.m.InitialInstance {
		base = w.boot
	} else {
		base = w.heads[instance-1-w.m.InitialInstance]
	}
	head := w.ec.Head
	var suffix []*vec.TS
	shape := "extends"
	if head.E < base.E {
		shape = "head-behind-base"
	} else if path, ok := vec.Path(base, head); ok {
		suffix = path
	} else {
		shape = "head-not-descendant"
	}
	if hl := w.m.EC.HeadLookback; hl > 0 {
		suffix = suffix[:max(0, len(suffix)-hl)]
	}
	if n := len(suffix); n > 0 && w.clk.Now().Sub(suffix[n-1].T) < w.m.EC.Period {
		suffix = suffix[:n-1]
		shape += "+fresh-head-trimmed"
	}
	maxLen := min(gpbft.ChainMaxLen, w.m.Gpbft.ChainProposedLength)
	if len(suffix) > maxLen-1 {
		suffix = suffix[:maxLen-1]
		shape += "+truncated"
	}
	ts := []*gpbft.TipSet{toGpbft(base)}
	for _, s := range suffix {
		ts = append(ts, toGpbft(s))
	}
	var sd gpbft.SupplementalData
	if cts := w.committeeTS(instance + 1); cts != nil {
		sd.PowerTable = vref.TableCID(vref.Canonical(cts.Table))
	}
	return &gpbft.ECChain{TipSets: ts}, sd, shape
}

func (w *world) inputs() *f3.VerifInputs {
	return f3.VerifNewInputs(w.m, w.store, w.ec, vcrypto.Scheme{}, w.clk)
}

func describeWorld(w *world) map[string]any {
	return map[string]any{"initial_instance": w.m.InitialInstance, "bootstrap_epoch": w.m.BootstrapEpoch, "finality": w.m.EC.Finality, "head_lookback": w.m.EC.HeadLookback, "proposed_len": w.m.Gpbft.ChainProposedLength,
		"committee_lookback": w.m.CommitteeLookback, "main_chain_tipsets": len(w.main), "certificates": len(w.certs), "head": fmt.Sprintf("%s@%d", w.headMod, w.ec.Head.E), "tipsets_total": len(w.ec.ByKey)}
}
