package t_inputs

import (
	"bytes"
	"context"
	"fmt"
	"testing"

	"github.com/filecoin-project/go-f3/certchain"
	"github.com/filecoin-project/go-f3/certs"
	"github.com/filecoin-project/go-f3/certstore"
	"github.com/filecoin-project/go-f3/gpbft"
	"github.com/filecoin-project/go-f3/verifharness/vcrypto"
	"github.com/filecoin-project/go-f3/verifharness/vds"
	"github.com/filecoin-project/go-f3/verifharness/vev"
	"github.com/filecoin-project/go-f3/verifharness/vgen"
	"github.com/filecoin-project/go-f3/verifharness/vref"
	"pgregory.net/rapid"
)

const c15 = "C15"
const c19 = "C19"

func TestMain(m *testing.M) {
	vev.Rule(c15, "generated EC block trees (null rounds, forks before/at/after the finalized base, head behind the base, chains far longer than 128), certificate histories stored in a real certstore.Store, manifests (head look-back 0..5, proposed length 1..150, committee look-back 2..6, initial instance, bootstrap epoch/finality) and clock positions around the head's timestamp; the model EC backend implements the public ec.Backend. "+
		"Oracle: GetProposal equals the model's chain exactly (starts at the head of the previous certificate or the bootstrap tipset, follows parents of the head, trimmed by head look-back, freshness and length, the base alone when the head does not descend from it, each tipset with the CID of the model's table) and its supplemental data commits to the model committee of the next instance; GetCommittee equals the model's look-back rule (table and beacon) and is invariant under changes of EC head, forks and clock - with at least one certificate stored also under a fork that branches off before the bootstrap tipset. Non-trivial = world with >=1 certificate and a head that is not a plain extension, or a trimmed/truncated proposal, or an instance beyond the bootstrap window; distinct by digest of the world")
	vev.Rule(c19, c19rule)
	vev.Main(m)
}

func sameChain(a, b *gpbft.ECChain) bool { return vref.ChainEq(a, b) }

func TestC15Inputs(t *testing.T) {
	rapid.Check(t, func(t *rapid.T) {
		ctx := context.Background()
		mainLen := rapid.OneOf(rapid.IntRange(20, 60), rapid.IntRange(150, 260)).Draw(t, "mainlen")
		w := genWorld(t, true, mainLen)
		// the bootstrap tipset needs room ahead of it
		k := rapid.IntRange(0, 8).Draw(t, "ncerts")
		w.buildCerts(t, k)
		inst := w.m.InitialInstance + uint64(rapid.IntRange(0, k).Draw(t, "instance"))
		var base = w.boot
		if inst > w.m.InitialInstance {
			base = w.heads[inst-1-w.m.InitialInstance]
		}
		w.placeHead(t, base)
		in := w.inputs()
		wantChain, wantSD, shape := w.expectedProposal(inst)
		sd, chain, err := in.GetProposal(ctx, inst)
		if err != nil {
			vev.Fail(t, c15, "C15/proposal/error", "GetProposal(%d) failed: %v; world %v", inst, err, describeWorld(w))
		}
		if err := chain.Validate(); err != nil || chain.IsZero() {
			vev.Fail(t, c15, "C15/proposal/malformed", "GetProposal(%d) returned a malformed chain: %v", inst, err)
		}
		if !vref.TipSetEq(chain.TipSets[0], wantChain.TipSets[0]) {
			vev.Fail(t, c15, "C15/proposal/base", "GetProposal(%d): chain starts at epoch %d, finalized base is at epoch %d (shape %s); world %v", inst, chain.TipSets[0].Epoch, wantChain.TipSets[0].Epoch, shape, describeWorld(w))
		}
		if chain.Len() > min(gpbft.ChainMaxLen, w.m.Gpbft.ChainProposedLength) {
			vev.Fail(t, c15, "C15/proposal/too-long", "GetProposal(%d): %d tipsets, limits are %d and %d", inst, chain.Len(), gpbft.ChainMaxLen, w.m.Gpbft.ChainProposedLength)
		}
		if !sameChain(chain, wantChain) {
			vev.Fail(t, c15, "C15/proposal/chain", "GetProposal(%d): got %d tipsets ending at epoch %d, model expects %d ending at epoch %d (shape %s); world %v", inst, chain.Len(), chain.Head().Epoch, wantChain.Len(), wantChain.Head().Epoch, shape, describeWorld(w))
		}
		if sd.PowerTable != wantSD.PowerTable || sd.Commitments != wantSD.Commitments {
			vev.Fail(t, c15, "C15/proposal/supplemental", "GetProposal(%d): supplemental data does not commit to the committee of instance %d", inst, inst+1)
		}
		// committees for every instance that is derivable from the stored certificates
		maxI := w.m.InitialInstance + uint64(k) + w.m.CommitteeLookback - 1
		for i := w.m.InitialInstance; i <= maxI; i++ {
			cts := w.committeeTS(i)
			com, err := in.GetCommittee(ctx, i)
			if cts == nil {
				continue
			}
			if err != nil {
				vev.Fail(t, c15, "C15/committee/error", "GetCommittee(%d) failed: %v; world %v", i, err, describeWorld(w))
			}
			if !vref.EntriesEq(com.PowerTable.Entries, vref.Canonical(cts.Table)) {
				vev.Fail(t, c15, "C15/committee/table", "GetCommittee(%d): table is not the table at the head finalized %d instances earlier; world %v", i, w.m.CommitteeLookback, describeWorld(w))
			}
			if !bytes.Equal(com.Beacon, cts.B) {
				vev.Fail(t, c15, "C15/committee/beacon", "GetCommittee(%d): beacon is not that of the tipset finalized %d instances earlier (epoch %d); world %v", i, w.m.CommitteeLookback, cts.E, describeWorld(w))
			}
		}
		// metamorphic: another head / clock, same certificates -> same committees
		before := map[uint64]string{}
		for i := w.m.InitialInstance; i <= maxI; i++ {
			if com, err := in.GetCommittee(ctx, i); err == nil {
				before[i] = fmt.Sprintf("%x|%v", com.Beacon, com.PowerTable.Entries)
			}
		}
		oldHead := w.ec.Head
		deep := false
		if bootIdx := w.mainIndex(w.boot); k >= 1 && bootIdx >= 1 && rapid.Bool().Draw(t, "deepreorg") {
			// a node whose EC view forks off *before* the bootstrap tipset (a deep reorg, or a
			// node that synced another fork): once a certificate is stored the committees come
			// from certified tipsets, so they must still be the same. (Without a certificate
			// the bootstrap committee is read from EC by epoch and is not asserted here.)
			from := w.main[rapid.IntRange(0, bootIdx-1).Draw(t, "deepfrom")]
			cur, e := from, from.E
			for cur.E < w.boot.E+int64(rapid.IntRange(1, 6).Draw(t, "deeplen")) {
				e += int64(1 + rapid.IntRange(0, 1).Draw(t, "deepgap"))
				ts := mkTS(e, "deepfork", cur, from.Table, w.m.EC.Period, 8)
				w.ec.Add(ts)
				cur = ts
			}
			w.ec.Head = cur
			w.clk.Set(cur.T.Add(w.m.EC.Period))
			w.headMod = "deep-fork-before-bootstrap"
			deep = true
		} else {
			w.placeHead(t, base)
		}
		in2 := w.inputs()
		if rapid.Bool().Draw(t, "sameobject") {
			in2 = in // a node keeps one inputs object while EC's head moves: nothing may be remembered from the old view
		}
		for i, b := range before {
			com, err := in2.GetCommittee(ctx, i)
			if err != nil || fmt.Sprintf("%x|%v", com.Beacon, com.PowerTable.Entries) != b {
				vev.Fail(t, c15, "C15/committee/depends-on-unfinalized-state", "GetCommittee(%d) changed when only the EC head (epoch %d -> %d) and clock changed (err=%v)", i, oldHead.E, w.ec.Head.E, err)
			}
		}
		if !deep {
			// the proposal under the new head and clock, through the same or a fresh object
			want2, wantSD2, shape2 := w.expectedProposal(inst)
			sd2, chain2, err := in2.GetProposal(ctx, inst)
			if err != nil {
				vev.Fail(t, c15, "C15/proposal/error", "GetProposal(%d) after the EC head moved failed: %v; world %v", inst, err, describeWorld(w))
			}
			if !sameChain(chain2, want2) {
				vev.Fail(t, c15, "C15/proposal/chain", "GetProposal(%d) after the EC head moved (epoch %d -> %d, same inputs object: %v): got %d tipsets ending at epoch %d, model expects %d ending at epoch %d (shape %s); world %v", inst, oldHead.E, w.ec.Head.E, in2 == in, chain2.Len(), chain2.Head().Epoch, want2.Len(), want2.Head().Epoch, shape2, describeWorld(w))
			}
			if sd2.PowerTable != wantSD2.PowerTable {
				vev.Fail(t, c15, "C15/proposal/supplemental", "GetProposal(%d) after the EC head moved: supplemental data does not commit to the committee of instance %d", inst, inst+1)
			}
		}
		nt := (k >= 1 && shape != "extends") || chain.Len() != 1 || inst >= w.m.InitialInstance+w.m.CommitteeLookback
		vev.Case(c15, vev.Digest(fmt.Sprint(describeWorld(w)), inst, shape, chain.Len()), nt, "shape:"+shape, "head:"+w.headMod, fmt.Sprintf("metamorphic-deep-reorg:%v", deep), fmt.Sprintf("certs:%d", min(k, 4)), fmt.Sprintf("proposal-len>1:%v", chain.Len() > 1), fmt.Sprintf("beyond-bootstrap-window:%v", inst+1 >= w.m.InitialInstance+w.m.CommitteeLookback))
		vev.Sample(c15, func() any {
			d := describeWorld(w)
			d["instance"] = inst
			d["shape"] = shape
			d["proposal_len"] = chain.Len()
			return d
		})
	})
}

const c19rule = "(a) generated sim.Simulation runs in which a harness adversary hands the simulator decisions through the host interface: under-powered signer subsets, empty signer set, bad aggregate, wrong instance / phase / round, bottom value, wrong base, and a fully signed different value for a participant that already completed; Run must return an error iff an injected decision is invalid or creates disagreement (clean control runs return nil). " +
	"(b) certchain.New over the model EC backend with generated manifests (look-back 2..6, initial instance) and evolving tables: for every instance the generator's committee (table and beacon) must equal the node rule (tipset finalized look-back instances earlier), its certificates' supplemental data must commit to that committee, and a node's GetCommittee over a store holding those certificates must agree. Non-trivial = injected invalid decision / world with instances beyond the bootstrap window and a table change; distinct by digest of the case"

// TestC19CertChain: the certificate-chain generator uses the node's committee rule.
func TestC19CertChain(t *testing.T) {
	rapid.Check(t, func(t *rapid.T) {
		ctx := context.Background()
		n := rapid.IntRange(1, 7).Draw(t, "ncerts")
		w := genWorld(t, false, 130*n+40)
		cc, err := certchain.New(certchain.WithEC(w.ec), certchain.WithManifest(w.m), certchain.WithSignVerifier(vcrypto.Scheme{}), certchain.WithSeed(int64(rapid.IntRange(0, 1000).Draw(t, "seed"))))
		if err != nil {
			t.Fatalf("HARNESS: certchain.New: %v", err)
		}
		gens := 1
		if rapid.IntRange(0, 2).Draw(t, "generateagain") == 0 {
			gens = 2 // the same generator object is asked for a second chain (its random choices differ)
		}
		tableChanged := false
		for gen := 0; gen < gens; gen++ {
			w.heads, w.certs = nil, nil
			generated, err := cc.Generate(ctx, uint64(n))
			if err != nil {
				vev.Fail(t, c19, "C19/certchain/generate-failed", "Generate(%d) failed: %v; world %v", n, err, describeWorld(w))
			}
			// heads finalized by the generated certificates, in the model
			for _, c := range generated {
				h := w.ec.ByKey[string(c.ECChain.Head().Key)]
				if h == nil {
					vev.Fail(t, c19, "C19/certchain/unknown-tipset", "generated certificate %d finalizes a tipset the EC does not know", c.GPBFTInstance)
				}
				w.heads = append(w.heads, h)
			}
			w.certs = generated
			for i := w.m.InitialInstance; i <= w.m.InitialInstance+uint64(n); i++ {
				cts := w.committeeTS(i)
				if cts == nil {
					continue
				}
				if !vref.EntriesEq(cts.Table, w.boot.Table) {
					tableChanged = true
				}
				com, err := cc.GetCommittee(ctx, i)
				if err != nil {
					vev.Fail(t, c19, "C19/certchain/committee-error", "certchain.GetCommittee(%d) failed: %v", i, err)
				}
				if !bytes.Equal(com.Beacon, cts.B) || !vref.EntriesEq(com.PowerTable.Entries, vref.Canonical(cts.Table)) {
					vev.Fail(t, c19, "C19/certchain/committee-rule", "certchain.GetCommittee(%d) is not the table/beacon at the head finalized %d instances earlier (instance %d, epoch %d); initial instance %d, %d certificates", i, w.m.CommitteeLookback, i-w.m.CommitteeLookback, cts.E, w.m.InitialInstance, n)
				}
			}
			// the certificates commit to the committees a real network would have
			for j, c := range generated {
				inst := w.m.InitialInstance + uint64(j)
				if c.GPBFTInstance != inst {
					vev.Fail(t, c19, "C19/certchain/instance", "certificate %d has instance %d", j, c.GPBFTInstance)
				}
				if cts := w.committeeTS(inst + 1); cts != nil && c.SupplementalData.PowerTable != vref.TableCID(vref.Canonical(cts.Table)) {
					vev.Fail(t, c19, "C19/certchain/supplemental", "certificate of instance %d commits to a table other than the node-rule committee of instance %d", inst, inst+1)
				}
			}
			// a chain a real network can produce validates against the node-derived tables
			baseTS := toGpbft(w.boot)
			if _, _, _, err := certs.ValidateFinalityCertificates(vcrypto.Scheme{}, w.m.NetworkName, w.boot.Table, w.m.InitialInstance, baseTS, generated...); err != nil {
				vev.Fail(t, c19, "C19/certchain/does-not-validate", "generated chain rejected by ValidateFinalityCertificates: %v", err)
			}
			// node over a store holding these certificates
			ds := vds.New()
			st, err := certstore.CreateStore(ctx, ds, w.m.InitialInstance, w.boot.Table)
			if err != nil {
				t.Fatalf("HARNESS: %v", err)
			}
			for _, c := range generated {
				if err := st.Put(ctx, c); err != nil {
					vev.Fail(t, c19, "C19/certchain/store-rejects", "certificate store rejects generated certificate %d: %v", c.GPBFTInstance, err)
				}
			}
			w.store = st
			in := w.inputs()
			for i := w.m.InitialInstance; i <= w.m.InitialInstance+uint64(n); i++ {
				a, errA := cc.GetCommittee(ctx, i)
				b, errB := in.GetCommittee(ctx, i)
				if errA != nil || errB != nil {
					continue
				}
				if !bytes.Equal(a.Beacon, b.Beacon) || !vref.EntriesEq(a.PowerTable.Entries, b.PowerTable.Entries) {
					vev.Fail(t, c19, "C19/certchain/differs-from-node", "instance %d: certchain and the node derive different committees from the same EC and certificates (beacon equal=%v)", i, bytes.Equal(a.Beacon, b.Beacon))
				}
			}
		}
		beyond := uint64(n) >= w.m.CommitteeLookback
		vev.Case(c19, vev.Digest("cc", fmt.Sprint(describeWorld(w)), n, gens), beyond && tableChanged, "certchain", fmt.Sprintf("certchain-generate-calls:%d", gens), fmt.Sprintf("beyond-bootstrap-window:%v", beyond), fmt.Sprintf("table-changed:%v", tableChanged))
		vev.Sample(c19, func() any { d := describeWorld(w); d["kind"] = "certchain"; d["generated"] = n; return d })
	})
}

// TestC19CertChainAccepts: what certchain accepts. A chain built by the harness under the node's
// committee rule (C15's builder: committee of instance i = table at the head finalized
// look-back instances earlier, delta and supplemental data to match, minimal signer sets) must
// be accepted by CertChain.Validate; the same chain with one certificate signed by the
// committee of another instance (a different table) must be rejected.
func TestC19CertChainAccepts(t *testing.T) {
	rapid.Check(t, func(t *rapid.T) {
		ctx := context.Background()
		k := rapid.IntRange(1, 8).Draw(t, "ncerts")
		w := genWorld(t, false, 60)
		w.buildCerts(t, k)
		mkcc := func() *certchain.CertChain {
			cc, err := certchain.New(certchain.WithEC(w.ec), certchain.WithManifest(w.m), certchain.WithSignVerifier(vcrypto.Scheme{}), certchain.WithSeed(1))
			if err != nil {
				t.Fatalf("HARNESS: certchain.New: %v", err)
			}
			return cc
		}
		if err := mkcc().Validate(ctx, w.certs); err != nil {
			vev.Fail(t, c19, "C19/certchain/rejects-node-rule-chain", "CertChain.Validate rejects a chain of %d certificates built under the node's committee rule (look-back %d, initial instance %d): %v", k, w.m.CommitteeLookback, w.m.InitialInstance, err)
		}
		// one certificate signed by another instance's committee
		rejected := "n/a"
		j := rapid.IntRange(0, k-1).Draw(t, "resign")
		inst := w.m.InitialInstance + uint64(j)
		right := w.committeeTS(inst).Table
		var wrong gpbft.PowerEntries
		for d := uint64(1); d <= uint64(k)+w.m.CommitteeLookback && wrong == nil; d++ {
			if cts := w.committeeTS(inst + d); cts != nil && !vref.EntriesEq(vref.Canonical(cts.Table), vref.Canonical(right)) {
				wrong = cts.Table
			}
		}
		if wrong != nil {
			forged := vgen.CloneCerts(w.certs)
			vgen.SignCert(w.m.NetworkName, wrong, forged[j], vgen.SignerSet(t, "wsig", wrong, "minimal"))
			// only a variant that is really invalid under the right committee counts (tables that
			// differ in a power or in members outside the signer set give the same signatures)
			if _, why := vref.CertValidAgainst(w.m.NetworkName, vref.Canonical(right), forged[j]); why != "" {
				// (a signer index beyond the committee makes CertChain.Validate panic instead of
				// returning an error; for this tool that counts as a rejection)
				validate := func() (err error) {
					defer func() {
						if r := recover(); r != nil {
							err = fmt.Errorf("panic: %v", r)
						}
					}()
					return mkcc().Validate(ctx, forged)
				}
				if err := validate(); err == nil {
					vev.Fail(t, c19, "C19/certchain/accepts-wrong-committee", "CertChain.Validate accepts a chain whose certificate %d is signed by the committee of a later instance and is invalid under its own (%s)", inst, why)
				}
				rejected = "yes"
			} else {
				rejected = "variant-still-valid"
			}
		}
		vev.Case(c19, vev.Digest("cc-accepts", fmt.Sprint(describeWorld(w)), k, j), wrong != nil, "certchain-accepts", "certchain-wrong-committee-variant:"+rejected)
	})
}
