package t_store

import (
	"context"
	"fmt"
	"sort"
	"testing"

	"github.com/filecoin-project/go-f3/certs"
	"github.com/filecoin-project/go-f3/certstore"
	"github.com/filecoin-project/go-f3/gpbft"
	"github.com/filecoin-project/go-f3/verifharness/vds"
	"github.com/filecoin-project/go-f3/verifharness/vev"
	"github.com/filecoin-project/go-f3/verifharness/vgen"
	"github.com/filecoin-project/go-f3/verifharness/vref"
	"pgregory.net/rapid"
)

// plainCert is a successor certificate built without generator draws: one new
// tipset, the given next table.
func plainCert(nn gpbft.NetworkName, instance uint64, cur, next gpbft.PowerEntries, base *gpbft.TipSet) *certs.FinalityCertificate {
	ts := []*gpbft.TipSet{vgen.CloneTipSet(base), {Epoch: base.Epoch + 1, Key: vgen.DetBytes(8+int(instance%9), "long", instance), PowerTable: vgen.DetCid("longpt", instance)}}
	c := &certs.FinalityCertificate{
		GPBFTInstance:    instance,
		ECChain:          &gpbft.ECChain{TipSets: ts},
		SupplementalData: gpbft.SupplementalData{PowerTable: vref.TableCID(next)},
		PowerTableDelta:  vref.MakeDiff(cur, next),
	}
	all := make([]int, len(cur))
	for i := range all {
		all[i] = i
	}
	vgen.SignCert(nn, cur, c, all)
	return c
}

// TestLongC09History: histories of more than a thousand certificates through the
// public API (real 1440-instance checkpoints, long stretches without one), every
// certificate, boundary and sampled power tables and long ranges compared with the
// model, live and after both reopen variants. Registered as a separate driver job
// (few cases, each large).
func TestLongC09History(t *testing.T) {
	rapid.Check(t, func(t *rapid.T) {
		ctx := context.Background()
		ds := vds.New()
		first := FirstInstance(t, "first")
		initial := vgen.Entries(t, "init", 1, 6).Entries
		maxLen := 1700
		if vev.Thorough() {
			maxLen = vev.IntEnv("VERIF_C09_LONG", 3200)
		}
		var L int
		switch rapid.IntRange(0, 2).Draw(t, "lenband") {
		case 0:
			L = rapid.IntRange(1026, 1100).Draw(t, "len")
		case 1:
			L = rapid.IntRange(1430, 1500).Draw(t, "len")
		default:
			L = rapid.IntRange(1100, maxLen).Draw(t, "len")
		}
		// table changes at a few generated positions (some right at the interesting offsets)
		nd := rapid.IntRange(0, 6).Draw(t, "ndeltas")
		deltaAt := map[int]bool{}
		for i := 0; i < nd; i++ {
			deltaAt[rapid.IntRange(0, L-1).Draw(t, "deltaat")] = true
		}
		st, err := certstore.CreateStore(ctx, ds, first, initial)
		if err != nil {
			vev.Fail(t, c09, "C09/create/failed", "CreateStore: %v", err)
		}
		m := &Model{Exists: true, First: first, Tables: []gpbft.PowerEntries{initial}}
		crossed := 0
		for k := 0; k < L; k++ {
			cur := m.CurTable()
			next := cur
			if deltaAt[k] {
				next = vgen.Evolve(t, fmt.Sprintf("ev%d", k), cur, 3)
			}
			c := plainCert("vnet", m.Next(), cur, next, m.Head())
			if err := st.Put(ctx, c); err != nil {
				vev.Fail(t, c09, "C09/put/successor-rejected", "long history: put of valid successor %s failed: %v", describeCert(c), err)
			}
			if (c.GPBFTInstance+1)%1440 == 0 {
				crossed++
			}
			m.Certs = append(m.Certs, c)
			m.Tables = append(m.Tables, next)
		}
		// instances whose power table is compared: distances from the last table the store
		// keeps (first instance or a multiple of 1440) that matter, plus a sample
		pick := map[uint64]bool{m.First: true, m.Next(): true, m.Next() - 1: true}
		bases := []uint64{m.First}
		for b := (m.First/1440 + 1) * 1440; b <= m.Next(); b += 1440 {
			bases = append(bases, b)
		}
		for _, b := range bases {
			for _, off := range []uint64{0, 1, 2, 255, 256, 257, 1022, 1023, 1024, 1025, 1026, 1027, 1438, 1439} {
				if b+off <= m.Next() {
					pick[b+off] = true
				}
			}
		}
		for k := range deltaAt {
			for _, d := range []uint64{0, 1, 2} {
				if i := m.First + uint64(k) + d; i <= m.Next() {
					pick[i] = true
				}
			}
		}
		for i := 0; i < 60; i++ {
			pick[m.First+uint64(rapid.IntRange(0, L).Draw(t, "ptsample"))] = true
		}
		var picked []uint64
		for i := range pick {
			picked = append(picked, i)
		}
		sort.Slice(picked, func(a, b int) bool { return picked[a] < picked[b] })
		type rng struct{ s, e uint64 }
		var ranges []rng
		ranges = append(ranges, rng{m.First, m.Next() - 1}, rng{m.First, m.Next()}, rng{m.First, m.Next() + 3000})
		for _, n := range []uint64{1023, 1024, 1025, 1026, 1440, 1441} {
			if uint64(L) > n {
				x := m.First + uint64(rapid.IntRange(0, L-int(n)).Draw(t, "rangestart"))
				ranges = append(ranges, rng{x, x + n - 1})
			}
			// a range of that length that runs past the end: the found prefix is shorter
			x := m.Next() - uint64(rapid.IntRange(1, int(min(n, uint64(L)))).Draw(t, "rangetail"))
			ranges = append(ranges, rng{x, x + n - 1})
		}
		// exactly 1024 (and other capacities) found, more asked for
		for _, found := range []uint64{1024, 1025, 1706} {
			if uint64(L) >= found {
				ranges = append(ranges, rng{m.Next() - found, m.Next() + uint64(rapid.IntRange(0, 4000).Draw(t, "beyond"))})
			}
		}
		observe := func(where string, s *certstore.Store, full bool) {
			lat := s.Latest()
			if lat == nil || lat.GPBFTInstance != m.Next()-1 {
				vev.Fail(t, c09, "C09/observe/latest-content", "%s: Latest() is not instance %d", where, m.Next()-1)
			}
			for i := m.First; i < m.Next(); i++ {
				if !full && i%7 != 0 && !pick[i] {
					continue
				}
				c, err := s.Get(ctx, i)
				if err != nil {
					vev.Fail(t, c09, "C09/observe/get-missing", "%s: Get(%d) failed: %v (first=%d next=%d)", where, i, err, m.First, m.Next())
				}
				if string(certBytes(c)) != string(certBytes(m.Certs[i-m.First])) {
					vev.Fail(t, c09, "C09/observe/get-content", "%s: Get(%d) differs from the certificate that was put", where, i)
				}
			}
			for _, i := range picked {
				pt, err := s.GetPowerTable(ctx, i)
				if err != nil {
					vev.Fail(t, c09, "C09/observe/power-table-missing", "%s: GetPowerTable(%d) failed: %v (first=%d next=%d)", where, i, err, m.First, m.Next())
				}
				if !vref.EntriesEq(pt, m.Tables[i-m.First]) {
					vev.Fail(t, c09, "C09/observe/power-table-content", "%s: GetPowerTable(%d) differs from initial table + earlier deltas (first=%d next=%d)", where, i, m.First, m.Next())
				}
			}
			if _, err := s.GetPowerTable(ctx, m.Next()+1); err == nil {
				vev.Fail(t, c09, "C09/observe/power-table-phantom", "%s: GetPowerTable(%d) succeeded beyond next=%d", where, m.Next()+1, m.Next())
			}
			for _, r := range ranges {
				CompareRange(t, c09, where, s, m, r.s, r.e)
			}
		}
		observe("long history, live", st, true)
		st2, err := certstore.OpenStore(ctx, ds)
		if err != nil {
			vev.Fail(t, c09, "C09/open/failed", "long history (first=%d, %d certificates): OpenStore failed: %v", m.First, L, err)
		}
		observe("long history, after OpenStore", st2, false)
		st3, err := certstore.OpenOrCreateStore(ctx, ds, m.First, m.Tables[0])
		if err != nil {
			vev.Fail(t, c09, "C09/open-or-create/failed", "long history (first=%d, %d certificates): OpenOrCreateStore with the original parameters failed: %v", m.First, L, err)
		}
		// the reopened store accepts the next certificate and serves the table after it
		cur := m.CurTable()
		next := vgen.Evolve(t, "evlast", cur, 2)
		c := plainCert("vnet", m.Next(), cur, next, m.Head())
		if err := st3.Put(ctx, c); err != nil {
			vev.Fail(t, c09, "C09/put/successor-rejected", "long history: put after reopen failed: %v", err)
		}
		m.Certs = append(m.Certs, c)
		m.Tables = append(m.Tables, next)
		pick[m.Next()] = true
		picked = append(picked, m.Next())
		ranges = []rng{{m.First, m.Next() - 1}}
		observe("long history, after OpenOrCreateStore + put", st3, false)
		vev.Case(c09, vev.Digest("long", first, L, fmt.Sprint(deltaAt)), true, "long-history", fmt.Sprintf("long:checkpoints-crossed:%d", min(crossed, 3)), fmt.Sprintf("long:deltas>0:%v", nd > 0), fmt.Sprintf("long:>1024-past-a-stored-table:%v", true))
		vev.Sample(c09, func() any {
			return map[string]any{"kind": "long-history", "first_instance": first, "certificates": L, "table_changes": len(deltaAt), "checkpoints_crossed": crossed, "power_tables_compared": len(picked)}
		})
	})
}
