package t_store

import (
	"context"
	"errors"
	"fmt"
	"strings"
	"testing"

	"github.com/filecoin-project/go-f3/certs"
	"github.com/filecoin-project/go-f3/certstore"
	"github.com/filecoin-project/go-f3/gpbft"
	"github.com/filecoin-project/go-f3/verifharness/vds"
	"github.com/filecoin-project/go-f3/verifharness/vev"
	"github.com/filecoin-project/go-f3/verifharness/vgen"
	"pgregory.net/rapid"
)

const c10 = "C10"
const c10rule = "generated store histories (0..8 certificates, first instance placed so that the crashed put is often the one that writes a power-table checkpoint), then one operation {CreateStore, OpenOrCreateStore (first time), Put of a valid successor, DeleteAll}: the operation is run once on a write-counting datastore to learn its n datastore writes, " +
	"then for EVERY k in [0,n] it is re-run from the same pre-state with the datastore dying at write k; the surviving key/value map is reopened with OpenStore, with OpenOrCreateStore and with CreateStore (refused while a store exists; otherwise a fresh store that keeps what is put into it across the next restart) and every observable (Latest, Get, GetPowerTable, GetRange) must equal the model state before or after the operation, an interrupted wipe must be completed by reopen (no /certstore key left), and repeating the operation must succeed. DeleteAll runs with a generated permutation of query results so every deletion order is reachable. " +
	"Non-trivial = crash point strictly inside an operation (0<k<n); distinct by digest of (history, operation, k, permutation)"

type crashOp struct {
	kind string
	cert *certs.FinalityCertificate // for put
}

func runOp(ctx context.Context, ds *vds.Store, op crashOp, first uint64, initial gpbft.PowerEntries, prepare bool) (err error) {
	switch op.kind {
	case "create":
		ds.ResetCounters()
		_, err = certstore.CreateStore(ctx, ds, first, initial)
	case "open-or-create":
		ds.ResetCounters()
		_, err = certstore.OpenOrCreateStore(ctx, ds, first, initial)
	case "put":
		st, oerr := certstore.OpenStore(ctx, ds)
		if oerr != nil {
			return fmt.Errorf("HARNESS-open: %w", oerr)
		}
		ds.ResetCounters()
		err = st.Put(ctx, op.cert)
	case "delete-all":
		st, oerr := certstore.OpenStore(ctx, ds)
		if oerr != nil {
			return fmt.Errorf("HARNESS-open: %w", oerr)
		}
		ds.ResetCounters()
		err = st.DeleteAll(ctx)
	}
	return err
}

// observeState opens the surviving map with the given variant and checks it
// against the candidate model states; returns which one matched.
func matches(t *rapid.T, variant string, snap map[string][]byte, cand *Model, first uint64, initial gpbft.PowerEntries) (ok bool, why string) {
	ctx := context.Background()
	ds := vds.FromSnapshot(snap)
	var st *certstore.Store
	var err error
	if variant == "CreateStore" {
		// a restart that goes straight to CreateStore: refused while a store exists (and the
		// store is then unchanged); otherwise a fresh store with the new parameters, which
		// keeps what is put into it across the next restart
		if cand.Exists {
			if _, cerr := certstore.CreateStore(ctx, ds, cand.First, cand.Tables[0]); cerr == nil {
				return false, "CreateStore succeeded although the store exists"
			}
			st, err = certstore.OpenStore(ctx, ds)
		} else {
			nf := first + 7
			st, err = certstore.CreateStore(ctx, ds, nf, initial)
			if err != nil {
				return false, fmt.Sprintf("CreateStore on a datastore without a store failed: %v", err)
			}
			fresh := &Model{Exists: true, First: nf, Tables: []gpbft.PowerEntries{initial}}
			rec := &recorder{}
			safely(func() { CompareUpToLatest(rec, c10, variant, st, fresh) })
			if rec.failed != "" {
				return false, "fresh store: " + rec.failed
			}
			c := plainCert("vnet", nf, initial, initial, fresh.Head())
			if perr := st.Put(ctx, c); perr != nil {
				return false, fmt.Sprintf("put into the fresh store failed: %v", perr)
			}
			fresh.Certs = append(fresh.Certs, c)
			fresh.Tables = append(fresh.Tables, initial)
			st2, oerr := certstore.OpenStore(ctx, ds)
			if oerr != nil {
				return false, fmt.Sprintf("the store created after the crash is gone on the next restart: %v", oerr)
			}
			safely(func() { CompareUpToLatest(rec, c10, variant+"+restart", st2, fresh) })
			if rec.failed != "" {
				return false, "fresh store after restart: " + rec.failed
			}
			return true, ""
		}
	} else if variant == "OpenStore" {
		st, err = certstore.OpenStore(ctx, ds)
		if !cand.Exists {
			if errors.Is(err, certstore.ErrNotInitialized) {
				return true, ""
			}
			return false, fmt.Sprintf("OpenStore: want ErrNotInitialized, got %v", err)
		}
	} else {
		f, init := first, initial
		if cand.Exists {
			f, init = cand.First, cand.Tables[0]
		}
		st, err = certstore.OpenOrCreateStore(ctx, ds, f, init)
		if !cand.Exists {
			// OpenOrCreate cannot observe "no store": it must yield a fresh empty one
			cand = &Model{Exists: true, First: f, Tables: []gpbft.PowerEntries{init}}
		}
	}
	if err != nil {
		return false, fmt.Sprintf("%s failed: %v", variant, err)
	}
	rec := &recorder{}
	safely(func() {
		CompareUpToLatest(rec, c10, variant, st, cand)
		if cand.Next() > cand.First {
			CompareRange(rec, c10, variant, st, cand, cand.First, cand.Next()-1)
		}
	})
	if rec.failed != "" {
		return false, rec.failed
	}
	return true, ""
}

// recorder turns Compare's failures into a value instead of aborting.
type recorder struct{ failed string }

func (r *recorder) Helper()             {}
func (r *recorder) Logf(string, ...any) {}
func (r *recorder) Fatalf(f string, a ...any) {
	if r.failed == "" {
		r.failed = fmt.Sprintf(f, a...)
	}
	panic(recorderAbort{})
}

type recorderAbort struct{}

func safely(f func()) {
	defer func() {
		if r := recover(); r != nil {
			if _, ok := r.(recorderAbort); !ok {
				panic(r)
			}
		}
	}()
	f()
}

func TestC10CrashPoints(t *testing.T) {
	rapid.Check(t, func(t *rapid.T) {
		ctx := context.Background()
		initial := vgen.Entries(t, "init", 1, 6).Entries
		nPre := rapid.IntRange(0, 8).Draw(t, "npre")
		opKind := rapid.SampledFrom([]string{"create", "open-or-create", "put", "put", "put", "delete-all", "delete-all"}).Draw(t, "op")
		// place the first instance so that instance first+nPre is a checkpoint writer in a third of the put cases
		first := FirstInstance(t, "first")
		if opKind == "put" && rapid.IntRange(0, 2).Draw(t, "atcheckpoint") == 0 {
			first = uint64(rapid.IntRange(1, 20).Draw(t, "ck"))*1440 - 1 - uint64(nPre)
		}
		pre := vds.New()
		m0 := &Model{}
		if opKind == "put" || opKind == "delete-all" {
			st, err := certstore.CreateStore(ctx, pre, first, initial)
			if err != nil {
				t.Fatalf("HARNESS: create: %v", err)
			}
			m0 = &Model{Exists: true, First: first, Tables: []gpbft.PowerEntries{initial}}
			for i := 0; i < nPre; i++ {
				c, nt := vgen.NextCert(t, fmt.Sprintf("pre%d", i), "vnet", m0.Next(), m0.CurTable(), m0.Head(), 2)
				if err := st.Put(ctx, c); err != nil {
					t.Fatalf("HARNESS: pre put: %v", err)
				}
				m0.Certs = append(m0.Certs, c)
				m0.Tables = append(m0.Tables, nt)
			}
		}
		op := crashOp{kind: opKind}
		m1 := m0.Clone()
		switch opKind {
		case "create", "open-or-create":
			m1 = &Model{Exists: true, First: first, Tables: []gpbft.PowerEntries{initial}}
		case "put":
			c, nt := vgen.NextCert(t, "opcert", "vnet", m0.Next(), m0.CurTable(), m0.Head(), 2)
			op.cert = c
			m1.Certs = append(m1.Certs, c)
			m1.Tables = append(m1.Tables, nt)
		case "delete-all":
			m1 = &Model{}
		}
		s0 := pre.Snapshot()
		// permutation for query results (wipe order): a generated shuffle key list
		var permKeys []int
		if opKind == "delete-all" {
			for i := 0; i < len(s0)+2; i++ {
				permKeys = append(permKeys, rapid.IntRange(0, 1000).Draw(t, "perm"))
			}
		}
		perm := func(n int) []int {
			// stable ranking of positions by generated keys
			idx := make([]int, n)
			for i := range idx {
				idx[i] = i
			}
			for i := 1; i < n; i++ {
				for j := i; j > 0; j-- {
					a, b := permKeys[idx[j-1]%len(permKeys)], permKeys[idx[j]%len(permKeys)]
					if a > b {
						idx[j-1], idx[j] = idx[j], idx[j-1]
					} else {
						break
					}
				}
			}
			out := make([]int, n)
			for pos, i := range idx {
				out[i] = pos
			}
			return out
		}
		withPerm := func(d *vds.Store) *vds.Store {
			if opKind == "delete-all" {
				d.Perm = perm
			}
			return d
		}
		// dry run
		dry := withPerm(vds.FromSnapshot(s0))
		if err := runOp(ctx, dry, op, first, initial, true); err != nil {
			if strings.HasPrefix(err.Error(), "HARNESS") {
				t.Fatalf("%v", err)
			}
			vev.Fail(t, c10, "C10/op/failed-without-fault", "%s failed without any injected fault: %v", opKind, err)
		}
		n := dry.Writes
		// the complete operation yields the after-state
		for _, variant := range []string{"OpenStore", "OpenOrCreateStore"} {
			var ok bool
			var why string
			safely(func() { ok, why = matches(t, variant, dry.Snapshot(), m1, first, initial) })
			if !ok {
				vev.Fail(t, c10, "C10/op/after-state-wrong", "%s completed, reopened with %s: state is not the model's after-state: %s", opKind, variant, why)
			}
		}
		for k := 0; k <= n; k++ {
			d := withPerm(vds.FromSnapshot(s0))
			// the handle is opened before faults are armed; ResetCounters happens inside runOp
			armed := false
			d.FailFrom = -1
			_ = armed
			err := func() error {
				// arm after open: runOp resets the counters right before the operation itself
				d.FailFrom = -1
				switch opKind {
				case "create", "open-or-create":
					d.FailFrom = k
					return runOp(ctx, d, op, first, initial, false)
				default:
					st, oerr := certstore.OpenStore(ctx, d)
					if oerr != nil {
						return fmt.Errorf("HARNESS-open: %w", oerr)
					}
					d.ResetCounters()
					d.FailFrom = k
					if opKind == "put" {
						return st.Put(ctx, op.cert)
					}
					return st.DeleteAll(ctx)
				}
			}()
			if err != nil && strings.HasPrefix(err.Error(), "HARNESS") {
				t.Fatalf("%v", err)
			}
			if k < n && err == nil {
				vev.Fail(t, c10, "C10/op/fault-swallowed", "%s reported success although datastore write %d of %d failed", opKind, k, n)
			}
			surv := d.Snapshot()
			inside := k > 0 && k < n
			label := fmt.Sprintf("%s crash at write %d/%d", opKind, k, n)
			for _, variant := range []string{"OpenStore", "OpenOrCreateStore", "CreateStore"} {
				var okBefore, okAfter bool
				var whyB, whyA string
				safely(func() { okBefore, whyB = matches(t, variant, surv, m0, first, initial) })
				safely(func() { okAfter, whyA = matches(t, variant, surv, m1, first, initial) })
				if opKind == "delete-all" && k >= 1 {
					// tombstone written: reopen must complete the wipe
					if !okAfter {
						vev.Fail(t, c10, "C10/wipe-interrupted/reopen-not-completed", "%s, reopened with %s: wipe not completed: %s (surviving keys: %v)", label, variant, whyA, keysOf(surv))
					}
					// and no key of the store may be left after a reopen
					d2 := vds.FromSnapshot(surv)
					if variant == "OpenStore" {
						_, _ = certstore.OpenStore(ctx, d2)
						if left := certKeys(d2.Keys()); len(left) > 0 {
							vev.Fail(t, c10, "C10/wipe-interrupted/keys-left-behind", "%s: after reopen these store keys remain: %v", label, left)
						}
					}
				} else if !okBefore && !okAfter {
					vev.Fail(t, c10, "C10/crash/inconsistent-state", "%s, reopened with %s: state is neither before (%s) nor after (%s); surviving keys: %v", label, variant, whyB, whyA, keysOf(surv))
				}
			}
			// the interrupted operation can be repeated successfully and yields the after-state
			rep := withPerm(vds.FromSnapshot(surv))
			var rerr error
			switch opKind {
			case "create":
				// CreateStore refuses an already complete store: only repeat when the crash left none
				if k < n {
					_, rerr = certstore.CreateStore(ctx, rep, first, initial)
				}
			case "open-or-create":
				_, rerr = certstore.OpenOrCreateStore(ctx, rep, first, initial)
			case "put":
				st, oerr := certstore.OpenStore(ctx, rep)
				if oerr != nil {
					vev.Fail(t, c10, "C10/crash/reopen-failed", "%s: OpenStore failed: %v", label, oerr)
				}
				rerr = st.Put(ctx, op.cert)
			case "delete-all":
				st, oerr := certstore.OpenStore(ctx, rep)
				if oerr == nil {
					rerr = st.DeleteAll(ctx)
				} else if !errors.Is(oerr, certstore.ErrNotInitialized) {
					vev.Fail(t, c10, "C10/crash/reopen-failed", "%s: OpenStore failed: %v", label, oerr)
				}
			}
			if rerr != nil {
				vev.Fail(t, c10, "C10/crash/repeat-failed", "%s: repeating the operation failed: %v", label, rerr)
			}
			for _, variant := range []string{"OpenStore"} {
				var ok bool
				var why string
				safely(func() { ok, why = matches(t, variant, rep.Snapshot(), m1, first, initial) })
				if !ok {
					vev.Fail(t, c10, "C10/crash/repeat-wrong-state", "%s: after repeating the operation the state is not the after-state: %s", label, why)
				}
			}
			atCk := opKind == "put" && (op.cert.GPBFTInstance+1)%1440 == 0
			vev.Case(c10, vev.Digest(opKind, k, n, first, nPre, fmt.Sprint(permKeys), len(initial)), inside, "op:"+opKind, fmt.Sprintf("inside:%v", inside), fmt.Sprintf("put-writes-checkpoint:%v", atCk), fmt.Sprintf("writes:%d", n))
			if inside {
				vev.Sample(c10, func() any {
					return map[string]any{"kind": "crash-point", "operation": opKind, "stored_before": nPre, "first_instance": first, "crash_before_write": k, "writes_of_operation": n, "surviving_keys": keysOf(surv)}
				})
			}
		}
	})
}

func keysOf(m map[string][]byte) []string {
	d := vds.FromSnapshot(m)
	return d.Keys()
}

func certKeys(keys []string) []string {
	var out []string
	for _, k := range keys {
		if strings.HasPrefix(k, "/certstore") {
			out = append(out, k)
		}
	}
	return out
}
