package t_store

import (
	"bufio"
	"bytes"
	"context"
	"encoding/binary"
	"fmt"
	"testing"

	"github.com/filecoin-project/go-f3/certs"
	"github.com/filecoin-project/go-f3/certstore"
	"github.com/filecoin-project/go-f3/gpbft"
	"github.com/filecoin-project/go-f3/manifest"
	"github.com/filecoin-project/go-f3/verifharness/vds"
	"github.com/filecoin-project/go-f3/verifharness/vev"
	"github.com/filecoin-project/go-f3/verifharness/vgen"
	"github.com/filecoin-project/go-f3/verifharness/vref"
	"golang.org/x/crypto/blake2b"
	"pgregory.net/rapid"
)

const c17 = "C17"
const c17rule = "generated stores (first instance > 0, often just below a multiple of 1440, evolving tables, 1..N certificates), a generated export end point; the unmodified export must import into an empty datastore and open to a store observationally equal to the exporter up to the end point (Latest, every Get, every GetPowerTable, GetRange) with digest = blake2b-256 of the bytes; " +
	"then one corruption: truncation at every block boundary and at sampled inner offsets, drop/duplicate/swap/append of certificate blocks, header edits (first, latest, initial table), certificate edits (delta, committed table CID, instance), contradicting manifest; a model importer (own block parser, own delta application and table CID) decides which must be rejected (truncated, non-contiguous, surplus, header/manifest contradiction, table mismatch at a checkpoint or at the end); corruptions the format does not commit to are counted as masked and not asserted. A failed import must not leave a latest pointer. " +
	"Non-trivial = any corrupted snapshot, or a clean one with >=2 certificates and a non-empty delta; distinct by digest of (store, end point, corruption)"

func putUvarint(n uint64) []byte {
	buf := make([]byte, binary.MaxVarintLen64)
	return buf[:binary.PutUvarint(buf, n)]
}

// splitBlocks parses varint-length-prefixed blocks; ok=false if the byte
// string does not end at a block boundary.
func splitBlocks(b []byte) (blocks [][]byte, bounds []int, ok bool) {
	pos := 0
	bounds = append(bounds, 0)
	for pos < len(b) {
		n, w := binary.Uvarint(b[pos:])
		if w <= 0 || uint64(len(b)-pos-w) < n {
			return blocks, bounds, false
		}
		blocks = append(blocks, b[pos+w:pos+w+int(n)])
		pos += w + int(n)
		bounds = append(bounds, pos)
	}
	return blocks, bounds, true
}

func joinBlocks(blocks [][]byte) []byte {
	var out []byte
	for _, bl := range blocks {
		out = append(out, putUvarint(uint64(len(bl)))...)
		out = append(out, bl...)
	}
	return out
}

// modelImport decides whether a snapshot must be rejected. It returns
// (mustReject, reason, importedModel).
func modelImport(snap []byte, m *manifest.Manifest) (bool, string, *Model) {
	blocks, _, ok := splitBlocks(snap)
	if !ok {
		return true, "truncated-inside-block", nil
	}
	if len(blocks) == 0 {
		return true, "no-header", nil
	}
	var h certstore.SnapshotHeader
	if err := h.UnmarshalCBOR(bytes.NewReader(blocks[0])); err != nil {
		return true, "header-undecodable", nil
	}
	if m != nil {
		if m.InitialInstance != h.FirstInstance {
			return true, "manifest-first-instance", nil
		}
		if m.InitialPowerTable.Defined() && m.InitialPowerTable != vref.TableCID(h.InitialPowerTable) {
			return true, "manifest-initial-table", nil
		}
	}
	if len(h.InitialPowerTable) == 0 {
		return true, "empty-initial-table", nil
	}
	mod := &Model{Exists: true, First: h.FirstInstance, Tables: []gpbft.PowerEntries{h.InitialPowerTable}}
	table := h.InitialPowerTable
	var last *certs.FinalityCertificate
	for i, bl := range blocks[1:] {
		var c certs.FinalityCertificate
		if err := c.UnmarshalCBOR(bytes.NewReader(bl)); err != nil {
			return true, "cert-undecodable", nil
		}
		want := h.FirstInstance + uint64(i)
		if c.GPBFTInstance != want {
			return true, "non-contiguous", nil
		}
		if c.GPBFTInstance > h.LatestInstance {
			return true, "surplus", nil
		}
		nt, err := vref.ApplyDiff(table, c.PowerTableDelta)
		if err != nil {
			return true, "delta-inapplicable", nil
		}
		table = nt
		if (c.GPBFTInstance+1)%1440 == 0 && vref.TableCID(table) != c.SupplementalData.PowerTable {
			return true, "table-mismatch-at-checkpoint", nil
		}
		cc := c
		last = &cc
		mod.Certs = append(mod.Certs, &cc)
		mod.Tables = append(mod.Tables, table)
	}
	if last == nil {
		return true, "no-certificates", nil
	}
	if last.GPBFTInstance != h.LatestInstance {
		return true, "ends-before-latest", nil
	}
	if vref.TableCID(table) != last.SupplementalData.PowerTable {
		return true, "table-mismatch-at-end", nil
	}
	return false, "", mod
}

func TestC17Snapshots(t *testing.T) {
	rapid.Check(t, func(t *rapid.T) {
		ctx := context.Background()
		maxCerts := vev.IntEnv("VERIF_C17_MAXCERTS", 12)
		initial := vgen.Entries(t, "init", 1, 6).Entries
		first := FirstInstance(t, "first")
		if first == 0 {
			first = 1
		}
		n := rapid.IntRange(1, maxCerts).Draw(t, "n")
		src := vds.New()
		st, err := certstore.CreateStore(ctx, src, first, initial)
		if err != nil {
			t.Fatalf("HARNESS: %v", err)
		}
		m := &Model{Exists: true, First: first, Tables: []gpbft.PowerEntries{initial}}
		anyDelta := false
		for i := 0; i < n; i++ {
			c, nt := vgen.NextCert(t, fmt.Sprintf("c%d", i), "vnet", m.Next(), m.CurTable(), m.Head(), 2)
			if err := st.Put(ctx, c); err != nil {
				t.Fatalf("HARNESS: put: %v", err)
			}
			m.Certs = append(m.Certs, c)
			m.Tables = append(m.Tables, nt)
			anyDelta = anyDelta || len(c.PowerTableDelta) > 0
		}
		endIdx := rapid.IntRange(0, n-1).Draw(t, "end")
		end := first + uint64(endIdx)
		var buf bytes.Buffer
		useLatest := endIdx == n-1 && rapid.Bool().Draw(t, "exportlatest")
		var hdr *certstore.SnapshotHeader
		var digest interface{ Bytes() []byte }
		if useLatest {
			c, h, err := st.ExportLatestSnapshot(ctx, &buf)
			if err != nil {
				vev.Fail(t, c17, "C17/export/failed", "ExportLatestSnapshot: %v", err)
			}
			hdr, digest = h, c
		} else {
			c, h, err := st.ExportSnapshot(ctx, end, &buf)
			if err != nil {
				vev.Fail(t, c17, "C17/export/failed", "ExportSnapshot(%d): %v", end, err)
			}
			hdr, digest = h, c
		}
		snap := append([]byte(nil), buf.Bytes()...)
		sum := blake2b.Sum256(snap)
		wantCid := append([]byte{0x01, 0x55, 0xa0, 0xe4, 0x02, 0x20}, sum[:]...)
		if !bytes.Equal(digest.Bytes(), wantCid) {
			vev.Fail(t, c17, "C17/export/digest", "export digest is not the raw/blake2b-256 CID of the exported bytes")
		}
		if hdr.FirstInstance != first || hdr.LatestInstance != end || !vref.EntriesEq(hdr.InitialPowerTable, initial) {
			vev.Fail(t, c17, "C17/export/header", "export header %d..%d does not describe the export %d..%d", hdr.FirstInstance, hdr.LatestInstance, first, end)
		}
		restricted := &Model{Exists: true, First: first, Tables: m.Tables[:endIdx+2], Certs: m.Certs[:endIdx+1]}
		// the reference importer must agree that the clean snapshot is fine and describes the restricted model
		if rej, why, mod := modelImport(snap, nil); rej || mod.Next() != restricted.Next() {
			vev.Fail(t, c17, "C17/export/not-self-consistent", "exported snapshot is rejected by the model importer (%s) or has the wrong length", why)
		}

		// ---- clean import
		mf := manifest.LocalDevnetManifest()
		var mp *manifest.Manifest
		mkind := rapid.SampledFrom([]string{"nil", "matching", "matching-with-table"}).Draw(t, "manifest")
		switch mkind {
		case "matching":
			mf.InitialInstance = first
			mp = &mf
		case "matching-with-table":
			mf.InitialInstance = first
			mf.InitialPowerTable = vref.TableCID(initial)
			mp = &mf
		}
		dst := vds.New()
		if err := certstore.ImportSnapshotToDatastore(ctx, bufio.NewReader(bytes.NewReader(snap)), dst, mp); err != nil {
			vev.Fail(t, c17, "C17/import/clean-rejected", "import of an unmodified export (%d certs, manifest %s) failed: %v", endIdx+1, mkind, err)
		}
		st2, err := certstore.OpenStore(ctx, dst)
		if err != nil {
			vev.Fail(t, c17, "C17/import/open-failed", "OpenStore after import failed: %v", err)
		}
		Compare(t, c17, "imported store", st2, restricted)
		CompareRange(t, c17, "imported store", st2, restricted, first, end)
		// the imported store keeps working: the next certificate of the source can be put
		if endIdx+1 < n {
			if err := st2.Put(ctx, m.Certs[endIdx+1]); err != nil {
				vev.Fail(t, c17, "C17/import/cannot-continue", "imported store rejects the exporter's next certificate: %v", err)
			}
		}
		vev.Case(c17, vev.Digest("clean", first, n, endIdx, mkind, fmt.Sprint(initial)), endIdx >= 1 && anyDelta, "clean-import", "manifest:"+mkind,
			fmt.Sprintf("crosses-checkpoint:%v", (first+uint64(endIdx)+1)/1440 > first/1440))

		// ---- corruptions
		blocks, bounds, _ := splitBlocks(snap)
		nc := rapid.IntRange(1, 6).Draw(t, "ncorrupt")
		for ci := 0; ci < nc; ci++ {
			label := fmt.Sprintf("k%d", ci)
			ops := []string{"truncate-boundary", "truncate-inner", "drop-block", "dup-block", "swap-blocks", "append-next", "append-dup-last",
				"header-first+1", "header-first-1", "header-latest+1", "header-latest-1", "header-table", "header-version",
				"cert-delta", "cert-cid", "cert-instance", "manifest-first", "manifest-table", "garbage-tail",
				"overwrite-block", "overwrite-block", "dup-and-drop", "drop-and-append"}
			op := rapid.SampledFrom(ops).Draw(t, label+".op")
			cblocks := make([][]byte, len(blocks))
			for i := range blocks {
				cblocks[i] = append([]byte(nil), blocks[i]...)
			}
			var corrupted []byte
			var cmanifest *manifest.Manifest = mp
			reencodeHeader := func(f func(h *certstore.SnapshotHeader)) {
				var h certstore.SnapshotHeader
				_ = h.UnmarshalCBOR(bytes.NewReader(cblocks[0]))
				f(&h)
				var b bytes.Buffer
				_ = h.MarshalCBOR(&b)
				cblocks[0] = b.Bytes()
			}
			reencodeCert := func(i int, f func(c *certs.FinalityCertificate)) {
				var c certs.FinalityCertificate
				_ = c.UnmarshalCBOR(bytes.NewReader(cblocks[i]))
				f(&c)
				var b bytes.Buffer
				_ = c.MarshalCBOR(&b)
				cblocks[i] = b.Bytes()
			}
			certIdx := 1 + rapid.IntRange(0, len(blocks)-2).Draw(t, label+".ci")
			switch op {
			case "truncate-boundary":
				corrupted = append([]byte(nil), snap[:bounds[rapid.IntRange(0, len(bounds)-2).Draw(t, label+".b")]]...)
			case "truncate-inner":
				corrupted = append([]byte(nil), snap[:rapid.IntRange(0, len(snap)-1).Draw(t, label+".off")]...)
			case "drop-block":
				cblocks = append(cblocks[:certIdx], cblocks[certIdx+1:]...)
			case "dup-block":
				cblocks = append(cblocks[:certIdx+1], append([][]byte{cblocks[certIdx]}, cblocks[certIdx+1:]...)...)
			case "overwrite-block":
				// one certificate block replaced by a copy of another one (usually its neighbour):
				// the number of blocks still matches the header
				if len(cblocks) >= 3 {
					j := certIdx + rapid.SampledFrom([]int{-1, -1, 1, -2, 2}).Draw(t, label+".src")
					if j < 1 {
						j = certIdx + 1
					}
					if j >= len(cblocks) {
						j = certIdx - 1
					}
					cblocks[certIdx] = cblocks[j]
				}
			case "dup-and-drop":
				// a repeated certificate pays for a missing one somewhere else
				if len(cblocks) >= 3 {
					drop := 1 + rapid.IntRange(0, len(cblocks)-2).Draw(t, label+".drop")
					dup := cblocks[certIdx]
					cblocks = append(cblocks[:drop], cblocks[drop+1:]...)
					at := 1 + rapid.IntRange(0, len(cblocks)-1).Draw(t, label+".at")
					cblocks = append(cblocks[:at], append([][]byte{dup}, cblocks[at:]...)...)
				}
			case "drop-and-append":
				// a missing certificate paid for by a surplus one at the end
				if endIdx+1 < n {
					cblocks = append(cblocks[:certIdx], cblocks[certIdx+1:]...)
					cblocks = append(cblocks, certBytes(m.Certs[endIdx+1]))
				} else {
					cblocks = append(cblocks[:certIdx], cblocks[certIdx+1:]...)
					cblocks = append(cblocks, cblocks[len(cblocks)-1])
				}
			case "swap-blocks":
				if len(cblocks) >= 3 {
					j := 1 + (certIdx % (len(cblocks) - 2))
					if j == certIdx {
						j = certIdx%(len(cblocks)-1) + 1
					}
					cblocks[certIdx], cblocks[j] = cblocks[j], cblocks[certIdx]
				}
			case "append-next":
				if endIdx+1 < n {
					cblocks = append(cblocks, certBytes(m.Certs[endIdx+1]))
				} else {
					extra, _ := vgen.NextCert(t, label+".extra", "vnet", m.Next(), m.CurTable(), m.Head(), 1)
					cblocks = append(cblocks, certBytes(extra))
				}
			case "append-dup-last":
				cblocks = append(cblocks, cblocks[len(cblocks)-1])
			case "header-first+1":
				reencodeHeader(func(h *certstore.SnapshotHeader) { h.FirstInstance++ })
			case "header-first-1":
				reencodeHeader(func(h *certstore.SnapshotHeader) { h.FirstInstance-- })
			case "header-latest+1":
				reencodeHeader(func(h *certstore.SnapshotHeader) { h.LatestInstance++ })
			case "header-latest-1":
				reencodeHeader(func(h *certstore.SnapshotHeader) { h.LatestInstance-- })
			case "header-table":
				reencodeHeader(func(h *certstore.SnapshotHeader) {
					h.InitialPowerTable = vref.CloneEntries(h.InitialPowerTable)
					h.InitialPowerTable[0].Power = gpbft.NewStoragePower(h.InitialPowerTable[0].Power.Int64() + 1)
				})
			case "header-version":
				reencodeHeader(func(h *certstore.SnapshotHeader) { h.Version += 7 })
			case "cert-delta":
				reencodeCert(certIdx, func(c *certs.FinalityCertificate) {
					if len(c.PowerTableDelta) > 0 && rapid.Bool().Draw(t, label+".dropdelta") {
						c.PowerTableDelta = c.PowerTableDelta[1:]
					} else {
						c.PowerTableDelta = append(c.PowerTableDelta, certs.PowerTableDelta{ParticipantID: 1 << 46, PowerDelta: gpbft.NewStoragePower(3), SigningKey: []byte("newkey")})
					}
				})
			case "cert-cid":
				reencodeCert(certIdx, func(c *certs.FinalityCertificate) { c.SupplementalData.PowerTable = vgen.DetCid("bad", ci) })
			case "cert-instance":
				reencodeCert(certIdx, func(c *certs.FinalityCertificate) {
					c.GPBFTInstance += uint64(rapid.IntRange(1, 2).Draw(t, label+".di"))
				})
			case "manifest-first":
				x := manifest.LocalDevnetManifest()
				x.InitialInstance = first + 1
				cmanifest = &x
			case "manifest-table":
				x := manifest.LocalDevnetManifest()
				x.InitialInstance = first
				x.InitialPowerTable = vgen.DetCid("othertable")
				cmanifest = &x
			case "garbage-tail":
				corrupted = append(append([]byte(nil), snap...), vgen.DetBytes(rapid.IntRange(1, 9).Draw(t, label+".g"), "tail")...)
			}
			if corrupted == nil {
				corrupted = joinBlocks(cblocks)
			}
			changed := !bytes.Equal(corrupted, snap) || cmanifest != mp
			mustReject, why, mod := modelImport(corrupted, cmanifest)
			dst := vds.New()
			ierr := certstore.ImportSnapshotToDatastore(ctx, bufio.NewReader(bytes.NewReader(corrupted)), dst, cmanifest)
			verdict := "rejected"
			if ierr == nil {
				verdict = "imported"
			}
			if mustReject && ierr == nil {
				vev.Fail(t, c17, "C17/import/malformed-accepted", "corruption %s (%s) was imported without error (store %d..%d, export end %d, block %d)", op, why, first, m.Next()-1, end, certIdx)
			}
			if ierr != nil {
				if has, _ := dst.Has(ctx, dsKey("/certstore/latestCert")); has {
					vev.Fail(t, c17, "C17/import/failed-import-left-pointer", "corruption %s: import failed (%v) but a latest pointer was written", op, ierr)
				}
			}
			masked := false
			if !mustReject && changed {
				masked = true
				// whatever was imported must still open to exactly what the snapshot's own content describes
				if ierr == nil {
					st3, err := certstore.OpenStore(ctx, dst)
					if err != nil {
						vev.Fail(t, c17, "C17/import/open-failed", "corruption %s imported but the store cannot be opened: %v", op, err)
					}
					Compare(t, c17, "imported (masked corruption "+op+")", st3, mod)
				}
			}
			vev.Case(c17, vev.Digest("corrupt", first, n, endIdx, op, certIdx, len(corrupted), fmt.Sprint(initial)), true, "corrupt:"+op, "corrupt-verdict:"+verdict, fmt.Sprintf("model-must-reject:%v", mustReject), fmt.Sprintf("masked:%v", masked), "reject-reason:"+why)
			vev.Sample(c17, func() any {
				return map[string]any{"kind": "corrupted-snapshot", "first": first, "stored": n, "export_end": end, "corruption": op, "block": certIdx, "model_must_reject": mustReject, "model_reason": why, "import": verdict, "import_error": fmt.Sprint(ierr)}
			})
		}
	})
}
