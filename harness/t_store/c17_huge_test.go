package t_store

import (
	"bufio"
	"bytes"
	"context"
	"fmt"
	"math/big"
	"testing"

	"github.com/filecoin-project/go-f3/certstore"
	"github.com/filecoin-project/go-f3/gpbft"
	"github.com/filecoin-project/go-f3/verifharness/vcrypto"
	"github.com/filecoin-project/go-f3/verifharness/vds"
	"github.com/filecoin-project/go-f3/verifharness/vev"
	"github.com/filecoin-project/go-f3/verifharness/vref"
	"pgregory.net/rapid"
)

// TestHugeC17Snapshots: stores whose blocks are as large as the formats allow - an initial
// power table of up to 8192 members (48-byte keys) and a certificate whose delta adds or
// removes thousands of members - exported and imported; the imported store must be
// observationally identical to the exporter. Registered as a separate driver job (few cases,
// each large); members are derived, not drawn one by one.
func TestHugeC17Snapshots(t *testing.T) {
	rapid.Check(t, func(t *rapid.T) {
		ctx := context.Background()
		mk := func(lo, n int) gpbft.PowerEntries {
			var out gpbft.PowerEntries
			for i := 0; i < n; i++ {
				id := uint64(1000 + lo + i)
				out = append(out, gpbft.PowerEntry{ID: gpbft.ActorID(id), Power: gpbft.StoragePower{Int: big.NewInt(int64(1_000_000 + (id*7919)%500_000))}, PubKey: vcrypto.PubKey(id)})
			}
			return out
		}
		nInit := rapid.SampledFrom([]int{50, 3000, 3900, 4100, 6000, 8192}).Draw(t, "initial")
		joiners := rapid.SampledFrom([]int{0, 0, 100, 4000, 5000}).Draw(t, "joiners")
		if nInit+joiners > 8192 {
			joiners = 8192 - nInit
		}
		initial := vref.Canonical(mk(0, nInit))
		first := uint64(rapid.IntRange(1, 20).Draw(t, "first"))
		src := vds.New()
		st, err := certstore.CreateStore(ctx, src, first, initial)
		if err != nil {
			vev.Fail(t, c17, "C17/export/failed", "CreateStore with %d members: %v", nInit, err)
		}
		m := &Model{Exists: true, First: first, Tables: []gpbft.PowerEntries{initial}}
		n := rapid.IntRange(2, 5).Draw(t, "n")
		joinAt := rapid.IntRange(0, n-1).Draw(t, "joinat")
		for i := 0; i < n; i++ {
			cur := m.CurTable()
			next := cur
			if i == joinAt && joiners > 0 {
				next = vref.Canonical(append(vref.CloneEntries(cur), mk(nInit, joiners)...))
			} else if rapid.Bool().Draw(t, "small-change") && len(cur) > 2 {
				next = vref.Canonical(vref.CloneEntries(cur)[:len(cur)-1])
			}
			c := plainCert("vnet", m.Next(), cur, next, m.Head())
			if err := st.Put(ctx, c); err != nil {
				vev.Fail(t, c17, "C17/export/failed", "Put of a certificate with a %d-entry delta: %v", len(c.PowerTableDelta), err)
			}
			m.Certs = append(m.Certs, c)
			m.Tables = append(m.Tables, next)
		}
		var buf bytes.Buffer
		if _, _, err := st.ExportLatestSnapshot(ctx, &buf); err != nil {
			vev.Fail(t, c17, "C17/export/failed", "ExportLatestSnapshot (%d initial members, %d joiners): %v", nInit, joiners, err)
		}
		dst := vds.New()
		if err := certstore.ImportSnapshotToDatastore(ctx, bufio.NewReaderSize(bytes.NewReader(buf.Bytes()), 1<<16), dst, nil); err != nil {
			vev.Fail(t, c17, "C17/import/clean-rejected", "import of an unmodified export failed (%d initial members, a delta of %d entries, %d bytes): %v", nInit, joiners, buf.Len(), err)
		}
		st2, err := certstore.OpenStore(ctx, dst)
		if err != nil {
			vev.Fail(t, c17, "C17/import/open-failed", "OpenStore on the imported datastore: %v", err)
		}
		Compare(t, c17, "imported huge store", st2, m)
		vev.Case(c17, vev.Digest("huge", nInit, joiners, n, joinAt, first), true, "huge-tables", fmt.Sprintf("huge-initial:%d", nInit), fmt.Sprintf("huge-delta:%d", joiners))
	})
}
