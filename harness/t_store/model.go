package t_store

import (
	"bytes"
	"context"
	"errors"
	"fmt"

	"github.com/filecoin-project/go-f3/certs"
	"github.com/filecoin-project/go-f3/certstore"
	"github.com/filecoin-project/go-f3/gpbft"
	"github.com/filecoin-project/go-f3/verifharness/vev"
	"github.com/filecoin-project/go-f3/verifharness/vgen"
	"github.com/filecoin-project/go-f3/verifharness/vref"
	"pgregory.net/rapid"
)

// Model is the reference certificate store: a slice of certificates and the
// table in force for each instance (Tables[i] validates instance First+i).
type Model struct {
	Exists bool
	First  uint64
	Tables []gpbft.PowerEntries
	Certs  []*certs.FinalityCertificate
}

func (m *Model) Clone() *Model {
	c := &Model{Exists: m.Exists, First: m.First}
	c.Tables = append(c.Tables, m.Tables...)
	c.Certs = append(c.Certs, m.Certs...)
	return c
}

func (m *Model) Next() uint64 { return m.First + uint64(len(m.Certs)) }

func (m *Model) Latest() *certs.FinalityCertificate {
	if len(m.Certs) == 0 {
		return nil
	}
	return m.Certs[len(m.Certs)-1]
}

func (m *Model) CurTable() gpbft.PowerEntries { return m.Tables[len(m.Tables)-1] }

func (m *Model) Head() *gpbft.TipSet {
	if l := m.Latest(); l != nil {
		return l.ECChain.TipSets[len(l.ECChain.TipSets)-1]
	}
	return &gpbft.TipSet{Epoch: 5, Key: []byte("genesis"), PowerTable: vgen.DetCid("genesis")}
}

// PutVerdict: what a put of c must do according to the statement.
// returns (accept-and-append, silently-ignored, reject)
func (m *Model) PutVerdict(c *certs.FinalityCertificate) (appendIt bool, ignored bool, next gpbft.PowerEntries, why string) {
	if c.GPBFTInstance < m.First {
		return false, false, nil, "before-first"
	}
	if c.ECChain == nil || len(c.ECChain.TipSets) == 0 {
		return false, false, nil, "bottom"
	}
	if !vref.ChainWellFormed(c.ECChain) {
		return false, false, nil, "malformed-chain"
	}
	if c.GPBFTInstance > m.Next() {
		return false, false, nil, "gap"
	}
	if c.GPBFTInstance < m.Next() {
		return false, true, nil, "stale"
	}
	nt, err := vref.ApplyDiff(m.CurTable(), c.PowerTableDelta)
	if err != nil {
		return false, false, nil, "delta:" + err.Error()
	}
	if vref.TableCID(nt) != c.SupplementalData.PowerTable {
		return false, false, nil, "cid"
	}
	if len(nt) == 0 {
		return false, false, nil, "empty-table"
	}
	return true, false, nt, ""
}

func certBytes(c *certs.FinalityCertificate) []byte {
	var buf bytes.Buffer
	if err := c.MarshalCBOR(&buf); err != nil {
		panic(err)
	}
	return buf.Bytes()
}

// Compare checks every observable of st against the model.
func Compare(t vev.FailTB, id, where string, st *certstore.Store, m *Model) {
	compare(t, id, where, st, m, true)
}

// CompareUpToLatest is Compare without the demand that nothing is readable
// above the latest pointer (after a crash an orphan certificate above the
// pointer is not state).
func CompareUpToLatest(t vev.FailTB, id, where string, st *certstore.Store, m *Model) {
	compare(t, id, where, st, m, false)
}

func compare(t vev.FailTB, id, where string, st *certstore.Store, m *Model, strictAbove bool) {
	ctx := context.Background()
	lat := st.Latest()
	ml := m.Latest()
	if (lat == nil) != (ml == nil) {
		vev.Fail(t, id, id+"/observe/latest-presence", "%s: Latest()=%v, model latest present=%v", where, lat != nil, ml != nil)
	}
	if lat != nil && !bytes.Equal(certBytes(lat), certBytes(ml)) {
		vev.Fail(t, id, id+"/observe/latest-content", "%s: Latest() is instance %d, model %d (or content differs)", where, lat.GPBFTInstance, ml.GPBFTInstance)
	}
	lo := m.First
	if lo > 0 {
		lo--
	}
	hi := m.Next() + 1
	for i := lo; i <= hi; i++ {
		c, err := st.Get(ctx, i)
		inRange := i >= m.First && i < m.Next()
		if inRange {
			if err != nil {
				vev.Fail(t, id, id+"/observe/get-missing", "%s: Get(%d) failed: %v (model has it; first=%d next=%d)", where, i, err, m.First, m.Next())
			}
			if !bytes.Equal(certBytes(c), certBytes(m.Certs[i-m.First])) {
				vev.Fail(t, id, id+"/observe/get-content", "%s: Get(%d) differs from the certificate that was put", where, i)
			}
		} else if strictAbove || i < m.First {
			if err == nil {
				vev.Fail(t, id, id+"/observe/get-phantom", "%s: Get(%d) returned a certificate outside [first=%d, next=%d)", where, i, m.First, m.Next())
			}
			if !errors.Is(err, certstore.ErrCertNotFound) {
				vev.Fail(t, id, id+"/observe/get-error-kind", "%s: Get(%d): %v is not ErrCertNotFound", where, i, err)
			}
		}
		// power tables: for every instance first..next
		pt, perr := st.GetPowerTable(ctx, i)
		if i >= m.First && i <= m.Next() {
			if perr != nil {
				vev.Fail(t, id, id+"/observe/power-table-missing", "%s: GetPowerTable(%d) failed: %v (first=%d next=%d)", where, i, perr, m.First, m.Next())
			}
			if !vref.EntriesEq(pt, m.Tables[i-m.First]) {
				vev.Fail(t, id, id+"/observe/power-table-content", "%s: GetPowerTable(%d) differs from initial table + earlier deltas (first=%d next=%d)", where, i, m.First, m.Next())
			}
		} else if perr == nil {
			vev.Fail(t, id, id+"/observe/power-table-phantom", "%s: GetPowerTable(%d) succeeded outside [first=%d, next=%d]", where, i, m.First, m.Next())
		}
	}
}

// CompareRange checks one GetRange call.
func CompareRange(t vev.FailTB, id, where string, st *certstore.Store, m *Model, start, end uint64) {
	got, err := st.GetRange(context.Background(), start, end)
	if start > end {
		if err == nil {
			vev.Fail(t, id, id+"/observe/range-inverted", "%s: GetRange(%d,%d) with start>end succeeded", where, start, end)
		}
		return
	}
	var want []*certs.FinalityCertificate
	complete := true
	for i := start; i <= end; i++ {
		if i >= m.First && i < m.Next() {
			want = append(want, m.Certs[i-m.First])
		} else {
			complete = false
			break
		}
		if i == end {
			break
		}
	}
	if len(got) != len(want) {
		vev.Fail(t, id, id+"/observe/range-length", "%s: GetRange(%d,%d) returned %d certificates, want %d (first=%d next=%d)", where, start, end, len(got), len(want), m.First, m.Next())
	}
	for i := range got {
		if !bytes.Equal(certBytes(&got[i]), certBytes(want[i])) {
			vev.Fail(t, id, id+"/observe/range-content", "%s: GetRange(%d,%d)[%d] is not the stored certificate of instance %d", where, start, end, i, start+uint64(i))
		}
	}
	if complete && err != nil {
		vev.Fail(t, id, id+"/observe/range-error", "%s: GetRange(%d,%d) fully inside the store failed: %v", where, start, end, err)
	}
	if !complete && !errors.Is(err, certstore.ErrCertNotFound) {
		vev.Fail(t, id, id+"/observe/range-no-error", "%s: GetRange(%d,%d) reaching outside the store returned err=%v", where, start, end, err)
	}
}

// FirstInstance draws a first instance, often just below a multiple of the
// checkpoint interval (1440) so that few puts cross it.
func FirstInstance(t *rapid.T, label string) uint64 {
	switch rapid.IntRange(0, 3).Draw(t, label+".mode") {
	case 0:
		return uint64(rapid.IntRange(0, 5).Draw(t, label+".small"))
	case 1:
		return uint64(rapid.IntRange(1, 3).Draw(t, label+".k"))*1440 + uint64(rapid.IntRange(0, 3).Draw(t, label+".above"))
	default:
		return uint64(rapid.IntRange(1, 50).Draw(t, label+".k"))*1440 - uint64(rapid.IntRange(1, 6).Draw(t, label+".below"))
	}
}

// PutCandidate draws a certificate to put, of a named kind.
func PutCandidate(t *rapid.T, label string, m *Model) (*certs.FinalityCertificate, string) {
	kinds := []string{"successor", "successor", "successor", "successor", "duplicate-same", "duplicate-different", "gap", "stale-before-first", "wrong-delta", "wrong-cid", "bottom", "malformed", "empties-table", "successor-no-delta"}
	kind := rapid.SampledFrom(kinds).Draw(t, label+".kind")
	nn := gpbft.NetworkName("vnet")
	good, _ := vgen.NextCert(t, label+".nc", nn, m.Next(), m.CurTable(), m.Head(), 3)
	switch kind {
	case "successor":
		return good, kind
	case "successor-no-delta":
		good.PowerTableDelta = nil
		good.SupplementalData.PowerTable = vref.TableCID(m.CurTable())
		return good, kind
	case "duplicate-same":
		if len(m.Certs) == 0 {
			return good, "successor"
		}
		return vgen.CloneCert(m.Certs[rapid.IntRange(0, len(m.Certs)-1).Draw(t, label+".dup")]), kind
	case "duplicate-different":
		if len(m.Certs) == 0 {
			return good, "successor"
		}
		good.GPBFTInstance = m.First + uint64(rapid.IntRange(0, len(m.Certs)-1).Draw(t, label+".dupi"))
		return good, kind
	case "gap":
		good.GPBFTInstance += uint64(rapid.IntRange(1, 3).Draw(t, label+".gap"))
		return good, kind
	case "stale-before-first":
		if m.First == 0 {
			return good, "successor"
		}
		good.GPBFTInstance = m.First - 1
		return good, kind
	case "wrong-delta":
		other, _ := vgen.NextCert(t, label+".nc2", nn, m.Next(), m.CurTable(), m.Head(), 3)
		if vref.DiffEq(other.PowerTableDelta, good.PowerTableDelta) {
			good.PowerTableDelta = append(good.PowerTableDelta, certs.PowerTableDelta{ParticipantID: 1 << 45, PowerDelta: gpbft.NewStoragePower(7), SigningKey: []byte("k")})
		} else {
			good.PowerTableDelta = other.PowerTableDelta
		}
		return good, kind
	case "wrong-cid":
		good.SupplementalData.PowerTable = vgen.DetCid("wrongcid", m.Next())
		return good, kind
	case "bottom":
		if rapid.Bool().Draw(t, label+".nilchain") {
			good.ECChain = nil
		} else {
			good.ECChain = &gpbft.ECChain{}
		}
		return good, kind
	case "malformed":
		ts := good.ECChain.TipSets
		switch rapid.IntRange(0, 2).Draw(t, label+".mal") {
		case 0:
			ts[len(ts)-1].Key = nil
		case 1:
			ts[len(ts)-1].Epoch = -1
		default:
			if len(ts) >= 2 {
				ts[len(ts)-1].Epoch = ts[len(ts)-2].Epoch
			} else {
				ts[0].Key = nil
			}
		}
		good.ECChain = &gpbft.ECChain{TipSets: ts}
		return good, kind
	default: // empties-table: a delta removing every member, committed honestly
		good.PowerTableDelta = vref.MakeDiff(m.CurTable(), nil)
		good.SupplementalData.PowerTable = vref.TableCID(nil)
		return good, "empties-table"
	}
}

func describeCert(c *certs.FinalityCertificate) string {
	l := 0
	if c.ECChain != nil {
		l = len(c.ECChain.TipSets)
	}
	return fmt.Sprintf("cert{instance=%d chain=%d delta=%d}", c.GPBFTInstance, l, len(c.PowerTableDelta))
}

func dsKey(s string) datastoreKey { return newKey(s) }
