package t_store

import (
	"context"
	"fmt"
	"math/big"
	"strings"
	"sync"
	"testing"

	"github.com/filecoin-project/go-f3/certs"
	"github.com/filecoin-project/go-f3/certstore"
	"github.com/filecoin-project/go-f3/gpbft"
	"github.com/filecoin-project/go-f3/verifharness/vcrypto"
	"github.com/filecoin-project/go-f3/verifharness/vds"
	"github.com/filecoin-project/go-f3/verifharness/vev"
	"github.com/filecoin-project/go-f3/verifharness/vgen"
	"github.com/filecoin-project/go-f3/verifharness/vref"
	"pgregory.net/rapid"
)

// TestC09ConcurrentWriters: several writers (a node's own consensus runner, its certificate
// exchange, an importer) race to store *different* certificates for the same next instance
// (same chain and delta, different signer sets - what two sources of one decision look like).
// Whichever is stored first is the history: once any Put of instance i has returned, what
// Get(i), Latest and a reopened store return for i never changes again, and the datastore
// key of a certificate is never rewritten with other bytes.
func TestC09ConcurrentWriters(t *testing.T) {
	rapid.Check(t, func(t *rapid.T) {
		ctx := context.Background()
		ds := vds.New()
		first := FirstInstance(t, "first")
		var initial gpbft.PowerEntries
		big_ := rapid.IntRange(0, 3).Draw(t, "bigtable") == 0
		if big_ {
			n := rapid.IntRange(300, 2500).Draw(t, "members")
			for i := 0; i < n; i++ {
				id := uint64(7000 + i)
				initial = append(initial, gpbft.PowerEntry{ID: gpbft.ActorID(id), Power: gpbft.StoragePower{Int: big.NewInt(int64(1_000_000 + (id*7919)%500_000))}, PubKey: vcrypto.PubKey(id)})
			}
			initial = vref.Canonical(initial)
		} else {
			initial = vgen.Entries(t, "init", 1, 6).Entries
		}
		st, err := certstore.CreateStore(ctx, ds, first, initial)
		if err != nil {
			t.Fatalf("HARNESS: %v", err)
		}
		W := rapid.IntRange(2, 4).Draw(t, "writers")
		n := rapid.IntRange(3, 12).Draw(t, "n")
		if big_ {
			n = rapid.IntRange(2, 4).Draw(t, "nbig")
		}
		m := &Model{Exists: true, First: first, Tables: []gpbft.PowerEntries{initial}}
		variants := make([][]*certs.FinalityCertificate, n) // [instance][writer]
		for i := 0; i < n; i++ {
			cur := m.CurTable()
			next := cur
			if rapid.IntRange(0, 2).Draw(t, fmt.Sprintf("delta%d", i)) == 0 {
				next = vgen.Evolve(t, fmt.Sprintf("ev%d", i), cur, 2)
			}
			c := plainCert("vnet", m.Next(), cur, next, m.Head())
			for w := 0; w < W; w++ {
				v := vgen.CloneCert(c)
				if w > 0 {
					v.Signature = vgen.DetBytes(96, "wsig", i, w)
				}
				variants[i] = append(variants[i], v)
			}
			m.Certs = append(m.Certs, c)
			m.Tables = append(m.Tables, next)
		}
		var mu sync.Mutex
		var errs []string
		report := func(f string, a ...any) {
			mu.Lock()
			if len(errs) < 8 {
				errs = append(errs, fmt.Sprintf(f, a...))
			}
			mu.Unlock()
		}
		winner := make([]string, n)
		for i := 0; i < n; i++ {
			inst := first + uint64(i)
			start := make(chan struct{})
			var wg sync.WaitGroup
			served := make([]string, W)
			for w := 0; w < W; w++ {
				wg.Add(1)
				go func(w int) {
					defer wg.Done()
					<-start
					if err := st.Put(ctx, variants[i][w]); err != nil {
						report("Put of instance %d (next instance of the store) by writer %d failed: %v", inst, w, err)
						return
					}
					// the Put has returned: the instance is served from now on
					c, err := st.Get(ctx, inst)
					if err != nil {
						report("Get(%d) failed right after a successful Put: %v", inst, err)
						return
					}
					served[w] = string(certBytes(c))
				}(w)
			}
			close(start)
			wg.Wait()
			c, err := st.Get(ctx, inst)
			if err != nil {
				report("Get(%d) failed after all writers returned: %v", inst, err)
				break
			}
			winner[i] = string(certBytes(c))
			known := false
			for w := 0; w < W; w++ {
				if winner[i] == string(certBytes(variants[i][w])) {
					known = true
				}
				if served[w] != "" && served[w] != winner[i] {
					report("instance %d: writer %d read one certificate after its Put returned, the store now returns another", inst, w)
				}
			}
			if !known {
				report("instance %d: the stored certificate is none of the submitted ones", inst)
			}
			if l := st.Latest(); l == nil || string(certBytes(l)) != winner[i] {
				report("instance %d: Latest is not the certificate Get returns", inst)
			}
		}
		for _, k := range ds.Overwritten {
			if strings.Contains(k, "/certs/") {
				report("datastore key %s of a stored certificate was rewritten with different bytes", k)
			}
		}
		if len(errs) > 0 {
			vev.Fail(t, c09, "C09/writers/history-changed", "%s", strings.Join(errs, "; "))
		}
		// the history is the winners, live and reopened
		for i := range m.Certs {
			for w := 0; w < W; w++ {
				if winner[i] == string(certBytes(variants[i][w])) {
					m.Certs[i] = variants[i][w]
				}
			}
		}
		Compare(t, c09, "after racing writers", st, m)
		re, err := certstore.OpenStore(ctx, ds)
		if err != nil {
			vev.Fail(t, c09, "C09/writers/reopen", "OpenStore after racing writers: %v", err)
		}
		Compare(t, c09, "reopened after racing writers", re, m)
		lbl := "writers-small-table"
		if big_ {
			lbl = "writers-big-table"
		}
		vev.Case(c09, vev.Digest("writers", first, n, W, len(initial), big_), true, "concurrent-writers", lbl, fmt.Sprintf("writers:%d", W))
	})
}
