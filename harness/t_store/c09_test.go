package t_store

import (
	"context"
	"errors"
	"fmt"
	"sync"
	"testing"
	"time"

	"github.com/filecoin-project/go-f3/certs"
	"github.com/filecoin-project/go-f3/certstore"
	"github.com/filecoin-project/go-f3/gpbft"
	"github.com/filecoin-project/go-f3/verifharness/vds"
	"github.com/filecoin-project/go-f3/verifharness/vev"
	"github.com/filecoin-project/go-f3/verifharness/vgen"
	"github.com/filecoin-project/go-f3/verifharness/vref"
	"pgregory.net/rapid"
)

const c09 = "C09"

func TestMain(m *testing.M) {
	vev.Rule(c09, "generated histories on a real certstore.Store over a deterministic in-memory datastore: create / open variants (right and wrong first instance or table) / put {successor, duplicate same or different content, gap, before-first, wrong delta, wrong CID, bottom, malformed, table-emptying delta} / range reads / subscribe + reads / reopen; first instance drawn near multiples of 1440 so real checkpoints are crossed; "+
		"after every step Latest, every Get, every GetPowerTable in [first-1, next+1] and sampled GetRange are compared with an in-memory model (initial table + all earlier deltas). Non-trivial = history with a rejected or ignored put and a reopen, or one that crosses a checkpoint boundary with a non-empty delta; distinct by digest of the operation trace")
	vev.Rule(c10, c10rule)
	vev.Rule(c17, c17rule)
	vev.Main(m)
}

type subscriber struct {
	ch     <-chan *certs.FinalityCertificate
	closer func()
	// unseen: the model's expectation of what a non-blocking read returns
	pending *certs.FinalityCertificate
	last    uint64
	hasLast bool
}

// putWithWatchdog runs Put and fails if it blocks (a writer must never wait
// for a subscriber).
func putWithWatchdog(t vev.FailTB, st *certstore.Store, c *certs.FinalityCertificate) error {
	done := make(chan error, 1)
	go func() { done <- st.Put(context.Background(), c) }()
	select {
	case err := <-done:
		return err
	case <-time.After(60 * time.Second):
		vev.Fail(t, c09, "C09/subscribe/put-blocked", "Put(%s) did not return within 60s while subscribers were not reading", describeCert(c))
		return nil
	}
}

func TestC09Histories(t *testing.T) {
	rapid.Check(t, func(t *rapid.T) {
		ctx := context.Background()
		ds := vds.New()
		m := &Model{}
		first := FirstInstance(t, "first")
		initial := vgen.Entries(t, "init", 1, 8).Entries
		var st *certstore.Store
		var subs []*subscriber
		var trace []string
		rejected, reopened, crossed, crossedWithDelta := 0, 0, false, false
		steps := rapid.IntRange(3, vev.IntEnv("VERIF_C09_STEPS", 40)).Draw(t, "steps")
		closeSubs := func() {
			for _, s := range subs {
				s.closer()
			}
			subs = nil
		}
		for s := 0; s < steps; s++ {
			var action string
			if st == nil {
				action = rapid.SampledFrom([]string{"create", "open", "open-or-create", "create", "open-or-create"}).Draw(t, "action0")
			} else {
				action = rapid.SampledFrom([]string{"put", "put", "put", "put", "put", "range", "range", "subscribe", "read-sub", "reopen", "reopen-or-create", "create-again", "open-wrong"}).Draw(t, "action")
			}
			where := fmt.Sprintf("step %d (%s)", s, action)
			switch action {
			case "create":
				got, err := certstore.CreateStore(ctx, ds, first, initial)
				if m.Exists {
					if err == nil {
						vev.Fail(t, c09, "C09/create/existing-recreated", "%s: CreateStore succeeded on an existing store", where)
					}
				} else {
					if err != nil {
						vev.Fail(t, c09, "C09/create/failed", "%s: CreateStore failed: %v", where, err)
					}
					m.Exists, m.First, m.Tables = true, first, []gpbft.PowerEntries{initial}
					st = got
				}
			case "open":
				got, err := certstore.OpenStore(ctx, ds)
				if !m.Exists {
					if !errors.Is(err, certstore.ErrNotInitialized) {
						vev.Fail(t, c09, "C09/open/not-initialized", "%s: OpenStore on an empty datastore: %v", where, err)
					}
				} else {
					if err != nil {
						vev.Fail(t, c09, "C09/open/failed", "%s: OpenStore failed: %v", where, err)
					}
					st = got
				}
			case "open-or-create":
				got, err := certstore.OpenOrCreateStore(ctx, ds, first, initial)
				if err != nil {
					vev.Fail(t, c09, "C09/open-or-create/failed", "%s: %v", where, err)
				}
				if !m.Exists {
					m.Exists, m.First, m.Tables = true, first, []gpbft.PowerEntries{initial}
				}
				st = got
			case "put":
				c, kind := PutCandidate(t, fmt.Sprintf("put%d", s), m)
				appendIt, ignored, nt, why := m.PutVerdict(c)
				before := m.Next()
				err := putWithWatchdog(t, st, c)
				switch {
				case appendIt:
					if err != nil {
						vev.Fail(t, c09, "C09/put/successor-rejected", "%s: put of a valid successor (%s, %s) failed: %v", where, kind, describeCert(c), err)
					}
					if (c.GPBFTInstance+1)%1440 == 0 {
						crossed = true
					}
					m.Certs = append(m.Certs, c)
					m.Tables = append(m.Tables, nt)
					if crossed && len(c.PowerTableDelta) > 0 {
						crossedWithDelta = true
					}
					for _, sb := range subs {
						sb.pending = c
					}
				case ignored:
					if err != nil {
						vev.Fail(t, c09, "C09/put/stale-errored", "%s: re-submitting stored instance %d (%s) returned %v", where, c.GPBFTInstance, kind, err)
					}
					rejected++
				default:
					if err == nil {
						vev.Fail(t, c09, "C09/put/invalid-admitted", "%s: put (%s, %s) must be rejected (%s) but succeeded", where, kind, describeCert(c), why)
					}
					rejected++
				}
				if m.Next() < before {
					t.Fatalf("HARNESS: model went backwards")
				}
				trace = append(trace, fmt.Sprintf("put:%s@%d", kind, c.GPBFTInstance))
			case "range":
				lo := m.First
				if lo > 2 {
					lo -= 2
				}
				span := m.Next() - lo + 3
				start := lo + uint64(rapid.IntRange(0, int(span)).Draw(t, "rs"))
				end := lo + uint64(rapid.IntRange(0, int(span)).Draw(t, "re"))
				CompareRange(t, c09, where, st, m, start, end)
				trace = append(trace, fmt.Sprintf("range:%d-%d", start-lo, end-lo))
			case "subscribe":
				ch, closer := st.Subscribe()
				subs = append(subs, &subscriber{ch: ch, closer: closer, pending: m.Latest()})
				trace = append(trace, "subscribe")
			case "read-sub":
				if len(subs) == 0 {
					continue
				}
				sb := subs[rapid.IntRange(0, len(subs)-1).Draw(t, "sub")]
				select {
				case got := <-sb.ch:
					if sb.pending == nil {
						vev.Fail(t, c09, "C09/subscribe/unexpected-notification", "%s: subscriber received instance %d although nothing new was stored", where, got.GPBFTInstance)
					}
					if got.GPBFTInstance != sb.pending.GPBFTInstance {
						vev.Fail(t, c09, "C09/subscribe/not-latest", "%s: subscriber received instance %d, latest unseen is %d", where, got.GPBFTInstance, sb.pending.GPBFTInstance)
					}
					if sb.hasLast && got.GPBFTInstance < sb.last {
						vev.Fail(t, c09, "C09/subscribe/went-backwards", "%s: subscriber saw %d after %d", where, got.GPBFTInstance, sb.last)
					}
					sb.last, sb.hasLast, sb.pending = got.GPBFTInstance, true, nil
				default:
					if sb.pending != nil {
						vev.Fail(t, c09, "C09/subscribe/missed", "%s: subscriber has nothing to read although instance %d was stored since its last read", where, sb.pending.GPBFTInstance)
					}
				}
				trace = append(trace, "read-sub")
			case "reopen":
				closeSubs()
				got, err := certstore.OpenStore(ctx, ds)
				if err != nil {
					vev.Fail(t, c09, "C09/open/failed", "%s: OpenStore failed: %v", where, err)
				}
				st = got
				reopened++
				trace = append(trace, "reopen")
			case "reopen-or-create":
				closeSubs()
				got, err := certstore.OpenOrCreateStore(ctx, ds, m.First, m.Tables[0])
				if err != nil {
					vev.Fail(t, c09, "C09/open-or-create/failed", "%s: OpenOrCreateStore with the original parameters failed: %v", where, err)
				}
				st = got
				reopened++
				trace = append(trace, "reopen-or-create")
			case "create-again":
				if _, err := certstore.CreateStore(ctx, ds, m.First, m.Tables[0]); err == nil {
					vev.Fail(t, c09, "C09/create/existing-recreated", "%s: CreateStore succeeded on an existing store", where)
				}
				trace = append(trace, "create-again")
			case "open-wrong":
				wrongFirst := m.First + 1
				tbl := m.Tables[0]
				if rapid.Bool().Draw(t, "wrongtable") {
					wrongFirst = m.First
					tbl = vgen.Evolve(t, "wt", m.Tables[0], 3)
					if vref.EntriesEq(tbl, m.Tables[0]) {
						tbl = append(vref.CloneEntries(tbl), gpbft.PowerEntry{ID: 1 << 44, Power: gpbft.NewStoragePower(1), PubKey: []byte("zz")})
					}
				}
				if _, err := certstore.OpenOrCreateStore(ctx, ds, wrongFirst, tbl); err == nil {
					vev.Fail(t, c09, "C09/open-or-create/wrong-params-accepted", "%s: OpenOrCreateStore accepted a different first instance or initial table", where)
				}
				trace = append(trace, "open-wrong")
			}
			if st != nil {
				Compare(t, c09, where, st, m)
			}
		}
		closeSubs()
		// final: a fresh open sees the same state
		if m.Exists {
			st2, err := certstore.OpenStore(ctx, ds)
			if err != nil {
				vev.Fail(t, c09, "C09/open/failed", "final OpenStore failed: %v", err)
			}
			Compare(t, c09, "final reopen", st2, m)
			if m.Next() > m.First {
				CompareRange(t, c09, "final reopen", st2, m, m.First, m.Next()-1)
			}
		}
		nt := (rejected > 0 && reopened > 0) || crossedWithDelta
		vev.Case(c09, vev.Digest(fmt.Sprint(trace), first, len(initial)), nt, fmt.Sprintf("crossed-checkpoint:%v", crossed), fmt.Sprintf("rejected-put+reopen:%v", rejected > 0 && reopened > 0), fmt.Sprintf("certs>=5:%v", len(m.Certs) >= 5))
		vev.Sample(c09, func() any {
			return map[string]any{"kind": "history", "first_instance": first, "initial_members": len(initial), "stored": len(m.Certs), "trace": trace}
		})
	})
}

// TestC09Concurrent: readers and a subscriber run against a writer; every read
// must be consistent with some prefix of the writer's history (run under
// -race by the driver).
func TestC09Concurrent(t *testing.T) {
	rapid.Check(t, func(t *rapid.T) {
		ctx := context.Background()
		ds := vds.New()
		first := FirstInstance(t, "first")
		initial := vgen.Entries(t, "init", 1, 6).Entries
		st, err := certstore.CreateStore(ctx, ds, first, initial)
		if err != nil {
			t.Fatalf("HARNESS: %v", err)
		}
		m := &Model{Exists: true, First: first, Tables: []gpbft.PowerEntries{initial}}
		n := rapid.IntRange(5, 40).Draw(t, "n")
		full := m.Clone()
		var seq []*certs.FinalityCertificate
		for i := 0; i < n; i++ {
			c, nt := vgen.NextCert(t, fmt.Sprintf("c%d", i), "vnet", full.Next(), full.CurTable(), full.Head(), 2)
			full.Certs = append(full.Certs, c)
			full.Tables = append(full.Tables, nt)
			seq = append(seq, c)
		}
		var wg sync.WaitGroup
		stop := make(chan struct{})
		errs := make(chan string, 64)
		report := func(f string, a ...any) {
			select {
			case errs <- fmt.Sprintf(f, a...):
			default:
			}
		}
		// idle subscriber that never reads
		_, closeIdle := st.Subscribe()
		// reading subscriber
		ch, closeReader := st.Subscribe()
		wg.Add(1)
		go func() {
			defer wg.Done()
			var last uint64
			seen := false
			for {
				select {
				case c, ok := <-ch:
					if !ok {
						return
					}
					if seen && c.GPBFTInstance < last {
						report("subscriber saw %d after %d", c.GPBFTInstance, last)
					}
					last, seen = c.GPBFTInstance, true
				case <-stop:
					return
				}
			}
		}()
		for r := 0; r < 3; r++ {
			wg.Add(1)
			go func(r int) {
				defer wg.Done()
				var lastSeen uint64
				seen := false
				for k := 0; ; k++ {
					select {
					case <-stop:
						return
					default:
					}
					if l := st.Latest(); l != nil {
						if seen && l.GPBFTInstance < lastSeen {
							report("Latest went backwards: %d after %d", l.GPBFTInstance, lastSeen)
						}
						lastSeen, seen = l.GPBFTInstance, true
						// everything up to the observed latest must be readable and equal to what the writer put
						i := first + uint64(k)%(l.GPBFTInstance-first+1)
						c, err := st.Get(ctx, i)
						if err != nil {
							report("Get(%d) failed with latest %d: %v", i, l.GPBFTInstance, err)
						} else if string(certBytes(c)) != string(certBytes(full.Certs[i-first])) {
							report("Get(%d) content differs", i)
						}
						pt, err := st.GetPowerTable(ctx, i)
						if err != nil {
							report("GetPowerTable(%d) failed with latest %d: %v", i, l.GPBFTInstance, err)
						} else if !vref.EntriesEq(pt, full.Tables[i-first]) {
							report("GetPowerTable(%d) differs", i)
						}
					}
				}
			}(r)
		}
		for _, c := range seq {
			if err := putWithWatchdog(t, st, c); err != nil {
				report("Put(%d) failed: %v", c.GPBFTInstance, err)
			}
		}
		close(stop)
		wg.Wait()
		closeIdle()
		closeReader()
		select {
		case e := <-errs:
			vev.Fail(t, c09, "C09/concurrent/inconsistent-read", "%s", e)
		default:
		}
		Compare(t, c09, "after concurrent run", st, full)
		vev.Case(c09, vev.Digest("conc", first, n, len(initial)), true, "concurrent")
	})
}
