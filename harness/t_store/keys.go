package t_store

import ds "github.com/ipfs/go-datastore"

type datastoreKey = ds.Key

func newKey(s string) ds.Key { return ds.NewKey(s) }
