package t_p2p

import (
	"context"
	"fmt"
	"math/big"
	"testing"
	"time"

	"github.com/filecoin-project/go-f3/certexchange"
	"github.com/filecoin-project/go-f3/certs"
	"github.com/filecoin-project/go-f3/certstore"
	"github.com/filecoin-project/go-f3/gpbft"
	"github.com/filecoin-project/go-f3/verifharness/vcrypto"
	"github.com/filecoin-project/go-f3/verifharness/vds"
	"github.com/filecoin-project/go-f3/verifharness/vev"
	"github.com/filecoin-project/go-f3/verifharness/vgen"
	"github.com/filecoin-project/go-f3/verifharness/vref"
	"pgregory.net/rapid"
)

// TestHugeC16Server: a store whose power table is as large as the wire format allows (up to
// 8192 members) and whose certificates carry deltas of thousands of entries, served by a real
// server and read through the real client: the table sent with the header is the store's
// table for the first requested instance, the certificates are the stored ones.
func TestHugeC16Server(t *testing.T) {
	rapid.Check(t, func(t *rapid.T) {
		ctx, cancel := context.WithTimeout(context.Background(), 600*time.Second)
		defer cancel()
		mk := func(lo, n int) gpbft.PowerEntries {
			var out gpbft.PowerEntries
			for i := 0; i < n; i++ {
				id := uint64(5000 + lo + i)
				out = append(out, gpbft.PowerEntry{ID: gpbft.ActorID(id), Power: gpbft.StoragePower{Int: big.NewInt(int64(2_000_000 + (id*104729)%900_000))}, PubKey: vcrypto.PubKey(id)})
			}
			return out
		}
		nInit := rapid.SampledFrom([]int{100, 4000, 8000, 8192}).Draw(t, "initial")
		joiners := rapid.SampledFrom([]int{0, 100, 3000}).Draw(t, "joiners")
		if nInit+joiners > 8192 {
			joiners = 8192 - nInit
		}
		tables := []gpbft.PowerEntries{vref.Canonical(mk(0, nInit))}
		first := uint64(rapid.IntRange(0, 5).Draw(t, "first"))
		ds := vds.New()
		st, err := certstore.CreateStore(ctx, ds, first, tables[0])
		if err != nil {
			t.Fatalf("HARNESS: %v", err)
		}
		base := &gpbft.TipSet{Epoch: 3, Key: []byte("huge-base"), PowerTable: vgen.DetCid("hb")}
		var stored []*certs.FinalityCertificate
		for i := 0; i < 3; i++ {
			cur := tables[len(tables)-1]
			next := cur
			if i == 1 && joiners > 0 {
				next = vref.Canonical(append(vref.CloneEntries(cur), mk(nInit, joiners)...))
			}
			head := &gpbft.TipSet{Epoch: base.Epoch + 1, Key: vgen.DetBytes(8, "hugets", i), PowerTable: vgen.DetCid("hugept", i)}
			c := &certs.FinalityCertificate{GPBFTInstance: first + uint64(i), ECChain: &gpbft.ECChain{TipSets: []*gpbft.TipSet{base, head}}, SupplementalData: gpbft.SupplementalData{PowerTable: vref.TableCID(next)}, PowerTableDelta: vref.MakeDiff(cur, next)}
			all := make([]int, len(cur))
			for x := range all {
				all[x] = x
			}
			vgen.SignCert(nn, cur, c, all)
			if err := st.Put(ctx, c); err != nil {
				t.Fatalf("HARNESS: put: %v", err)
			}
			stored = append(stored, c)
			tables = append(tables, next)
			base = head
		}
		mn, hs := newNet(t, 2)
		defer mn.Close()
		srv := &certexchange.Server{NetworkName: nn, Host: hs[0], Store: st, RequestTimeout: 120 * time.Second}
		if err := srv.Start(ctx); err != nil {
			t.Fatalf("HARNESS: %v", err)
		}
		defer srv.Stop(context.Background())
		client := &certexchange.Client{Host: hs[1], NetworkName: nn, RequestTimeout: 120 * time.Second}
		off := rapid.IntRange(0, 3).Draw(t, "offset")
		req := &certexchange.Request{FirstInstance: first + uint64(off), Limit: certexchange.NoLimit, IncludePowerTable: true}
		rh, ch, err := client.Request(ctx, hs[0].ID(), req)
		if err != nil {
			vev.Fail(t, c16, "C16/client/request-failed", "request for instance %d with power table (%d members, delta of %d) failed: %v", req.FirstInstance, nInit, joiners, err)
		}
		if rh.PendingInstance != first+3 {
			vev.Fail(t, c16, "C16/server/pending", "pending instance %d, store next is %d", rh.PendingInstance, first+3)
		}
		if !vref.EntriesEq(rh.PowerTable, tables[off]) {
			vev.Fail(t, c16, "C16/server/power-table", "the table sent with the header (%d members) is not the store's table for instance %d (%d members)", len(rh.PowerTable), req.FirstInstance, len(tables[off]))
		}
		i := off
		for c := range ch {
			if i >= len(stored) || string(certBytes(c)) != string(certBytes(stored[i])) {
				vev.Fail(t, c16, "C16/server/content", "certificate #%d of the response is not the stored certificate of instance %d", i-off, first+uint64(i))
			}
			i++
		}
		if i != len(stored) {
			vev.Fail(t, c16, "C16/server/count", "response carried certificates up to instance %d, the store holds up to %d", first+uint64(i)-1, first+2)
		}
		vev.Case(c16, vev.Digest("huge16", nInit, joiners, first, off), true, "huge-table-request", fmt.Sprintf("huge-members:%d", nInit), fmt.Sprintf("huge-delta:%d", joiners))
	})
}
