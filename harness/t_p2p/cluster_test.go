package t_p2p

import (
	"bytes"
	"context"
	"fmt"
	"math/big"
	"os"
	"path/filepath"
	"sync"
	"testing"
	"time"

	f3 "github.com/filecoin-project/go-f3"
	"github.com/filecoin-project/go-f3/certs"
	"github.com/filecoin-project/go-f3/gpbft"
	"github.com/filecoin-project/go-f3/internal/clock"
	"github.com/filecoin-project/go-f3/internal/encoding"
	"github.com/filecoin-project/go-f3/internal/psutil"
	"github.com/filecoin-project/go-f3/manifest"
	"github.com/filecoin-project/go-f3/verifharness/vcrypto"
	"github.com/filecoin-project/go-f3/verifharness/vds"
	"github.com/filecoin-project/go-f3/verifharness/vec"
	"github.com/filecoin-project/go-f3/verifharness/vev"
	"github.com/filecoin-project/go-f3/verifharness/vgen"
	"github.com/filecoin-project/go-f3/verifharness/vref"
	pubsub "github.com/libp2p/go-libp2p-pubsub"
	"github.com/libp2p/go-libp2p/core/peer"
	"pgregory.net/rapid"
)

// Cluster engine: 1..3 real F3 nodes (real gpbft runner, pubsub, partial-message manager,
// chain exchange, certificate store and exchange, WAL) over an in-process network, an EC model
// whose head follows a mock clock and whose power table changes along the chain, generated
// manifests. The harness only advances the clock and signs what the nodes ask it to sign.
// What is judged is state, never timing: the certificates the nodes' own decision path stored.
// A run that does not reach the target instance within the real-time budget is inconclusive.

const clusterRule = "cluster runs: 1..3 real F3 nodes over an in-process libp2p network (own gossipsub, partial messages + chain exchange, certificate exchange, WAL, certificate store), EC model with null rounds whose head follows a mock clock and whose power table is re-weighted / extended along the chain, generated manifests (initial instance, bootstrap epoch, finality, head look-back, committee look-back 2..4, delta, compression); the harness advances the clock and signs on request. " +
	"Oracle on the certificates the nodes stored through their own decision path: every node's chain validates from the initial table under the reference validator and the production one; all nodes hold the same certificate per instance; each certificate starts at the previous head (the bootstrap tipset first), runs along parent links of the EC model's chain, carries the delta between the node-rule committees of its instance and the next and commits to the latter's CID; a node that reported a decision (instance terminated) holds the certificate; an observer peer never sees two differently signed messages for one (instance, sender, round, step). "

type clusterNode struct {
	id     gpbft.ActorID
	f3     *f3.F3
	dir    string
	ds     *vds.Store
	ctx    context.Context
	cancel context.CancelFunc
}

func runCluster(t *rapid.T, prop string, root string) {
	dir, err := os.MkdirTemp(root, "verif-cluster-")
	if err != nil {
		t.Fatalf("HARNESS: %v", err)
	}
	defer os.RemoveAll(dir)
	ctx, cancel := context.WithCancel(context.Background())
	defer cancel()
	ctx, clk := clock.WithMockClock(ctx)

	m := manifest.LocalDevnetManifest()
	m.NetworkName = "vnet"
	m.InitialInstance = 0 // a fresh node with another initial instance cannot start its certificate subscriber (NewPoller asks the empty store for the table of instance 0)
	m.EC.Period = 30 * time.Second
	m.EC.Finality = int64(rapid.IntRange(1, 4).Draw(t, "finality"))
	m.BootstrapEpoch = m.EC.Finality + int64(rapid.IntRange(1, 6).Draw(t, "bootextra"))
	m.EC.HeadLookback = rapid.IntRange(0, 2).Draw(t, "headlookback")
	m.EC.Finalize = true
	m.CommitteeLookback = uint64(rapid.IntRange(2, 4).Draw(t, "lookback"))
	if m.ChainExchange.MaxInstanceLookahead > m.CommitteeLookback {
		m.ChainExchange.MaxInstanceLookahead = m.CommitteeLookback
	}
	m.Gpbft.Delta = time.Duration(rapid.SampledFrom([]int{500, 1000, 3000}).Draw(t, "delta_ms")) * time.Millisecond
	m.Gpbft.ChainProposedLength = rapid.SampledFrom([]int{2, 5, 20}).Draw(t, "proposedlen")
	m.Gpbft.RebroadcastBackoffSpread = 0
	m.PubSub.CompressionEnabled = rapid.Bool().Draw(t, "compression")
	if err := m.Validate(); err != nil {
		t.Fatalf("HARNESS: manifest: %v", err)
	}
	n := rapid.IntRange(1, 3).Draw(t, "nodes")
	target := uint64(rapid.IntRange(2, 5).Draw(t, "target"))

	// power table along the chain: the nodes (all running) hold nearly everything
	table := gpbft.PowerEntries{}
	for id := 1; id <= n; id++ {
		table = append(table, gpbft.PowerEntry{ID: gpbft.ActorID(id), Power: gpbft.StoragePower{Int: big.NewInt(int64(1000 + rapid.IntRange(0, 500).Draw(t, "power")))}, PubKey: vcrypto.PubKey(uint64(id))})
	}
	table = vref.Canonical(table)
	ecm := vec.New()
	ecm.Now = clk.Now
	t0 := time.Unix(1_700_000_000, 0)
	var prev *vec.TS
	epoch := int64(0)
	tableChanges := 0
	for i := 0; i < 400; i++ {
		if i > 0 && rapid.IntRange(0, map[bool]int{true: 3, false: 15}[i < 40]).Draw(t, "tablechange") == 0 {
			// re-weight a running member upwards or add a small non-running member: the running
			// nodes keep a strong quorum
			nt := vref.CloneEntries(table)
			if rapid.Bool().Draw(t, "addghost") && len(nt) < n+3 {
				gid := uint64(100 + len(nt))
				nt = append(nt, gpbft.PowerEntry{ID: gpbft.ActorID(gid), Power: gpbft.StoragePower{Int: big.NewInt(int64(1 + rapid.IntRange(0, 20).Draw(t, "ghostpower")))}, PubKey: vcrypto.PubKey(gid)})
			} else {
				k := rapid.IntRange(0, len(nt)-1).Draw(t, "rwidx")
				if nt[k].ID <= gpbft.ActorID(n) {
					nt[k].Power = gpbft.StoragePower{Int: new(big.Int).Add(nt[k].Power.Int, big.NewInt(int64(rapid.IntRange(1, 300).Draw(t, "rwdelta"))))}
				}
			}
			table = vref.Canonical(nt)
			tableChanges++
		}
		ts := &vec.TS{E: epoch, K: vgen.DetBytes(8+i%5, "clts", epoch), B: vgen.DetBytes(16, "clb", epoch), T: t0.Add(time.Duration(epoch) * m.EC.Period), Parent: prev, Table: table}
		ecm.Add(ts)
		ecm.Main = append(ecm.Main, ts)
		prev = ts
		epoch++
		if rapid.IntRange(0, 6).Draw(t, "null") == 0 {
			epoch += int64(rapid.IntRange(1, 2).Draw(t, "nullgap"))
		}
	}
	clk.Set(t0.Add(time.Duration(m.BootstrapEpoch+int64(rapid.IntRange(1, 8).Draw(t, "startafter"))) * m.EC.Period))
	boot := ecm.AtEpoch(m.BootstrapEpoch - m.EC.Finality)
	if boot == nil {
		t.Fatalf("HARNESS: no bootstrap tipset")
	}

	mn, hs := newNetUnconnected(t, n+1)
	defer mn.Close()
	topic := manifest.PubSubTopicFromNetworkName(m.NetworkName)
	// observer
	rec := &recorder{topic: topic, walAt: map[string]map[string]bool{}}
	ops, err := pubsub.NewGossipSub(ctx, hs[n])
	if err != nil {
		t.Fatalf("HARNESS: observer gossipsub: %v", err)
	}
	_ = ops.RegisterTopicValidator(topic, func(context.Context, peer.ID, *pubsub.Message) pubsub.ValidationResult { return pubsub.ValidationAccept })
	otopic, err := ops.Join(topic, pubsub.WithTopicMessageIdFn(psutil.GPBFTMessageIdFn))
	if err != nil {
		t.Fatalf("HARNESS: observer join: %v", err)
	}
	osub, err := otopic.Subscribe()
	if err != nil {
		t.Fatalf("HARNESS: observer subscribe: %v", err)
	}
	go func() {
		for {
			msg, err := osub.Next(ctx)
			if err != nil {
				return
			}
			rec.receivedAny(msg, m.PubSub.CompressionEnabled)
		}
	}()
	var nodes []*clusterNode
	var wg sync.WaitGroup
	boot1 := func(nd *clusterNode, i int) {
		ps, err := pubsub.NewGossipSub(nd.ctx, hs[i])
		if err != nil {
			t.Fatalf("HARNESS: gossipsub: %v", err)
		}
		nd.f3, err = f3.New(nd.ctx, m, nd.ds, hs[i], ps, vcrypto.Scheme{}, ecm, nd.dir)
		if err != nil {
			t.Fatalf("HARNESS: f3.New: %v", err)
		}
		wg.Add(1)
		go func(mod *f3.F3, nctx context.Context) {
			defer wg.Done()
			for {
				select {
				case mb, ok := <-mod.MessagesToSign():
					if !ok {
						return
					}
					sb, err := mb.PrepareSigningInputs(nd.id)
					if err != nil {
						continue
					}
					sig, vrf, err := sb.Sign(nctx, vcrypto.Scheme{})
					if err != nil {
						continue
					}
					mod.Broadcast(nctx, sb, sig, vrf)
				case <-nctx.Done():
					return
				}
			}
		}(nd.f3, nd.ctx)
	}
	for i := 0; i < n; i++ {
		nd := &clusterNode{id: gpbft.ActorID(i + 1), dir: filepath.Join(dir, fmt.Sprintf("node%d", i)), ds: vds.New()}
		nd.ctx, nd.cancel = context.WithCancel(ctx)
		nodes = append(nodes, nd)
		boot1(nd, i)
	}
	if err := mn.LinkAll(); err != nil {
		t.Fatalf("HARNESS: link: %v", err)
	}
	if err := mn.ConnectAllButSelf(); err != nil {
		t.Fatalf("HARNESS: connect: %v", err)
	}
	for _, nd := range nodes {
		if err := nd.f3.Start(nd.ctx); err != nil {
			vev.Fail(t, prop, prop+"/cluster/start-failed", "node %d: Start failed: %v", nd.id, err)
		}
	}
	defer func() {
		cancel()
		for _, nd := range nodes {
			sctx, c := context.WithTimeout(context.Background(), 10*time.Second)
			_ = nd.f3.Stop(sctx)
			c()
		}
		wg.Wait()
	}()
	goal := m.InitialInstance + target
	step := time.Duration(rapid.SampledFrom([]int{100, 250, 1000}).Draw(t, "clockstep_ms")) * time.Millisecond
	deadline := time.Now().Add(time.Duration(vev.IntEnv("VERIF_CLUSTER_BUDGET_S", map[bool]int{true: 120, false: 40}[vev.Thorough()])) * time.Second)
	reached := false
	restartNode, restarted := -1, false
	if rapid.IntRange(0, 2).Draw(t, "restart") == 0 {
		restartNode = rapid.IntRange(0, n-1).Draw(t, "restartnode")
	}
	for time.Now().Before(deadline) {
		all := true
		for _, nd := range nodes {
			if !nd.f3.IsRunning() || nd.f3.Progress().ID < goal {
				all = false
			}
		}
		if all {
			reached = true
			break
		}
		if restartNode >= 0 && !restarted {
			half := true
			for _, nd := range nodes {
				if nd.f3.Progress().ID < m.InitialInstance+target/2 {
					half = false
				}
			}
			if half {
				// one node is stopped and a new node is started on its datastore and directory
				// (needs a new libp2p identity in this in-process network: the host is reused)
				nd := nodes[restartNode]
				sctx, c := context.WithTimeout(context.Background(), 20*time.Second)
				if err := nd.f3.Stop(sctx); err != nil {
					c()
					vev.Fail(t, prop, prop+"/cluster/stop-failed", "node %d: Stop failed: %v", nd.id, err)
				}
				c()
				nd.cancel()
				nd.ctx, nd.cancel = context.WithCancel(ctx)
				boot1(nd, restartNode)
				if err := nd.f3.Start(nd.ctx); err != nil {
					vev.Fail(t, prop, prop+"/cluster/start-failed", "node %d: Start after a restart failed: %v", nd.id, err)
				}
				restarted = true
			}
		}
		clk.Add(step)
		time.Sleep(2 * time.Millisecond)
	}
	// ---- state-based oracle
	bg := context.Background()
	stored := make([][]*certs.FinalityCertificate, n)
	for i, nd := range nodes {
		for inst := m.InitialInstance; ; inst++ {
			c, err := nd.f3.GetCert(bg, inst)
			if err != nil {
				break
			}
			stored[i] = append(stored[i], c)
		}
		// a node that reported a decision holds its certificate
		if pr := nd.f3.Progress(); pr.Phase == gpbft.TERMINATED_PHASE && pr.ID >= m.InitialInstance+uint64(len(stored[i])) && !reached {
			// (terminate -> ReceiveDecision -> Put is one synchronous call; give a starved goroutine
			// ten seconds of real time before concluding that it is not going to happen)
			var gerr error
			stuck := true
			for w := 0; w < 200; w++ {
				if _, gerr = nd.f3.GetCert(bg, pr.ID); gerr == nil || nd.f3.Progress().Instant != pr.Instant {
					stuck = false
					break
				}
				time.Sleep(50 * time.Millisecond)
			}
			if stuck {
				vev.Fail(t, prop, prop+"/cluster/decision-without-certificate", "node %d terminated instance %d (a decision was reported to the host) but holds no certificate for it: %v", nd.id, pr.ID, gerr)
			}
		}
	}
	if !reached {
		maxStored := 0
		for i := range stored {
			maxStored = max(maxStored, len(stored[i]))
		}
		if maxStored == 0 {
			// nothing to judge: counted, never a failure (the budget is real time)
			vev.Case(prop, vev.Digest("cluster-inconclusive", prop, n, target, step), false, "cluster", "cluster-inconclusive-nothing-stored-within-budget")
			return
		}
	}
	bootTS := &gpbft.TipSet{Epoch: boot.E, Key: boot.K, PowerTable: vref.TableCID(boot.Table)}
	committeeTS := func(heads []*vec.TS, i uint64) *vec.TS {
		if i < m.InitialInstance+m.CommitteeLookback {
			return boot
		}
		j := i - m.CommitteeLookback - m.InitialInstance
		if j >= uint64(len(heads)) {
			return nil
		}
		return heads[j]
	}
	deltas := 0
	for i, cs := range stored {
		if len(cs) == 0 {
			continue
		}
		// same certificate per instance on every node
		for k := range stored {
			for x := 0; x < len(cs) && x < len(stored[k]); x++ {
				// the signer set and aggregate may differ (each node aggregates the DECIDE votes it
				// saw); what is finalized, committed to and the table delta may not
				a, b := cs[x], stored[k][x]
				if a.GPBFTInstance != b.GPBFTInstance || !vref.ChainEq(a.ECChain, b.ECChain) || !a.SupplementalData.Eq(&b.SupplementalData) || !vref.DiffEq(a.PowerTableDelta, b.PowerTableDelta) {
					vev.Fail(t, prop, prop+"/cluster/nodes-disagree", "nodes %d and %d hold certificates for instance %d that finalize different chains (or differ in supplemental data / delta)", nodes[i].id, nodes[k].id, cs[x].GPBFTInstance)
				}
			}
		}
		if _, _, _, err := certs.ValidateFinalityCertificates(vcrypto.Scheme{}, m.NetworkName, boot.Table, m.InitialInstance, bootTS, cs...); err != nil {
			vev.Fail(t, prop, prop+"/cluster/chain-does-not-validate", "node %d: the certificates it stored do not validate from the initial table: %v", nodes[i].id, err)
		}
		if res := vref.ValidateCerts(m.NetworkName, boot.Table, m.InitialInstance, bootTS, cs); res.ValidPrefix != len(cs) {
			vev.Fail(t, prop, prop+"/cluster/chain-does-not-validate", "node %d: reference validator accepts only %d of its %d stored certificates: %+v", nodes[i].id, res.ValidPrefix, len(cs), res)
		}
		var heads []*vec.TS
		base := boot
		for x, c := range cs {
			if c.GPBFTInstance != m.InitialInstance+uint64(x) {
				vev.Fail(t, prop, prop+"/cluster/instance-sequence", "node %d: certificate #%d has instance %d", nodes[i].id, x, c.GPBFTInstance)
			}
			if !bytes.Equal(c.ECChain.Base().Key, base.K) {
				vev.Fail(t, prop, prop+"/cluster/base", "node %d instance %d: certificate starts at epoch %d, the previously finalized head is at epoch %d", nodes[i].id, c.GPBFTInstance, c.ECChain.Base().Epoch, base.E)
			}
			cur := base
			for _, ts := range c.ECChain.TipSets[1:] {
				mts := ecm.ByKey[string(ts.Key)]
				if mts == nil || mts.Parent != cur || mts.E != ts.Epoch || ts.PowerTable != vref.TableCID(mts.Table) {
					vev.Fail(t, prop, prop+"/cluster/not-along-ec", "node %d instance %d: finalized tipset at epoch %d is not the EC child of epoch %d with EC's power table CID", nodes[i].id, c.GPBFTInstance, ts.Epoch, cur.E)
				}
				cur = mts
			}
			heads = append(heads, cur)
			base = cur
		}
		for x, c := range cs {
			inst := m.InitialInstance + uint64(x)
			a, b := committeeTS(heads, inst), committeeTS(heads, inst+1)
			if a == nil || b == nil {
				continue
			}
			want := vref.MakeDiff(vref.Canonical(a.Table), vref.Canonical(b.Table))
			if !vref.DiffEq(want, c.PowerTableDelta) {
				vev.Fail(t, prop, prop+"/cluster/delta", "node %d instance %d: the stored certificate's power-table delta (%d entries) is not the delta between the committees of instance %d and %d under the node rule (%d entries)", nodes[i].id, inst, len(c.PowerTableDelta), inst, inst+1, len(want))
			}
			if c.SupplementalData.PowerTable != vref.TableCID(vref.Canonical(b.Table)) {
				vev.Fail(t, prop, prop+"/cluster/supplemental", "node %d instance %d: the certificate does not commit to the committee of instance %d", nodes[i].id, inst, inst+1)
			}
			if len(want) > 0 {
				deltas++
			}
		}
	}
	rec.mu.Lock()
	seen := map[slot][]byte{}
	for _, p := range rec.pubs {
		if prevSig, ok := seen[p.key]; ok && !bytes.Equal(prevSig, p.sig) {
			rec.mu.Unlock()
			vev.Fail(t, prop, prop+"/cluster/self-equivocation-on-the-wire", "the observer received two differently signed messages for slot %+v", p.key)
		}
		seen[p.key] = p.sig
	}
	npub := len(rec.pubs)
	rec.mu.Unlock()
	total := 0
	for i := range stored {
		total += len(stored[i])
	}
	vev.Case(prop, vev.Digest("cluster", prop, n, m.InitialInstance, m.BootstrapEpoch, m.EC.Finality, m.CommitteeLookback, target, tableChanges, step, total), total >= 2,
		"cluster", fmt.Sprintf("cluster-nodes:%d", n), fmt.Sprintf("cluster-reached-target:%v", reached), fmt.Sprintf("cluster-node-restarted:%v", restarted), fmt.Sprintf("cluster-nonempty-delta:%v", deltas > 0), fmt.Sprintf("cluster-observed-messages>0:%v", npub > 0),
		fmt.Sprintf("cluster-certificates-per-node:%d", min(total/max(1, n), 6)))
	vev.Sample(prop, func() any {
		return map[string]any{"kind": "cluster", "nodes": n, "initial_instance": m.InitialInstance, "bootstrap_epoch": m.BootstrapEpoch, "finality": m.EC.Finality, "committee_lookback": m.CommitteeLookback, "target_instances": target, "reached": reached, "certificates_stored_total": total, "certificates_with_delta": deltas, "messages_observed": npub}
	})
}

// receivedAny records a published GPBFT message (plain or zstd-compressed partial message).
func (r *recorder) receivedAny(msg *pubsub.Message, compressed bool) {
	var pm gpbft.PartialGMessage
	if compressed {
		z, err := encoding.NewZSTD[*gpbft.PartialGMessage]()
		if err != nil || z.Decode(msg.Data, &pm) != nil {
			return
		}
	} else if err := pm.UnmarshalCBOR(bytes.NewReader(msg.Data)); err != nil {
		return
	}
	k := slot{pm.Vote.Instance, pm.Sender, pm.Vote.Round, pm.Vote.Phase}
	r.mu.Lock()
	defer r.mu.Unlock()
	r.pubs = append(r.pubs, published{key: k, sig: append([]byte(nil), pm.Signature...)})
}

func clusterRoot() string {
	root := os.Getenv("VERIF_TMP")
	if root == "" {
		root = os.TempDir()
	}
	return root
}

func TestClusterC03(t *testing.T) {
	rapid.Check(t, func(t *rapid.T) { runCluster(t, "C03", clusterRoot()) })
}

func TestClusterC15(t *testing.T) {
	rapid.Check(t, func(t *rapid.T) { runCluster(t, "C15", clusterRoot()) })
}
