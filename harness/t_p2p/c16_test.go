package t_p2p

import (
	"bufio"
	"bytes"
	"context"
	"fmt"
	"io"
	"sync"
	"testing"
	"time"

	"github.com/filecoin-project/go-f3/certexchange"
	"github.com/filecoin-project/go-f3/certexchange/polling"
	"github.com/filecoin-project/go-f3/certs"
	"github.com/filecoin-project/go-f3/certstore"
	"github.com/filecoin-project/go-f3/gpbft"
	"github.com/filecoin-project/go-f3/verifharness/vcrypto"
	"github.com/filecoin-project/go-f3/verifharness/vds"
	"github.com/filecoin-project/go-f3/verifharness/vev"
	"github.com/filecoin-project/go-f3/verifharness/vgen"
	"github.com/filecoin-project/go-f3/verifharness/vref"
	"github.com/ipfs/go-datastore"
	"github.com/libp2p/go-libp2p/core/host"
	"github.com/libp2p/go-libp2p/core/network"
	mocknet "github.com/libp2p/go-libp2p/p2p/net/mock"
	"pgregory.net/rapid"
)

const c16 = "C16"
const nn = gpbft.NetworkName("vnet")

func TestMain(m *testing.M) {
	vev.Rule(c16, "generated stores (0..N certificates over evolving tables, first instance generated) served by a real certexchange.Server over an in-process libp2p network; generated requests (first around the stored range and near 2^64, limit in {0,1,2,255,256,257,NoLimit,...}, with/without power table) read through a RAW stream (everything the server writes) and through Client.Request; oracle: header advertises latest+1, certificates are byte-for-byte the stored ones for first, first+1, ..., at most min(limit,256), none at or beyond the advertised pending instance, table present iff requested and equal to the store's table for first. "+
		"Pollers: a scripted Byzantine responder (forged, reordered, duplicated, truncated certificates, valid prefixes, mis-advertised pending instance, several request rounds) is polled by a real polling.Poller; afterwards store, NextInstance, PowerTable and status must equal a model that validates each wire item with the reference validator against the poller's own table. Non-trivial = request that reaches a limit or range boundary / script with at least one invalid or out-of-order item; distinct by digest of (store, request) or script")
	vev.Rule(c12, c12rule)
	vev.Rule(c18, c18rule)
	vev.Rule(c20, c20rule)
	vev.Main(m)
}

type testStore struct {
	ds     *vds.Store
	st     *certstore.Store
	first  uint64
	tables []gpbft.PowerEntries
	certs  []*certs.FinalityCertificate
}

func (s *testStore) next() uint64 { return s.first + uint64(len(s.certs)) }

func head(s *testStore) *gpbft.TipSet {
	if n := len(s.certs); n > 0 {
		c := s.certs[n-1]
		return c.ECChain.TipSets[len(c.ECChain.TipSets)-1]
	}
	return &gpbft.TipSet{Epoch: 5, Key: []byte("genesis"), PowerTable: vgen.DetCid("genesis")}
}

// genStore draws a store with n certificates; extra more certificates are generated but not stored.
func genStore(t *rapid.T, label string, n, extra int) (*testStore, []*certs.FinalityCertificate, []gpbft.PowerEntries) {
	ctx := context.Background()
	s := &testStore{ds: vds.New(), first: rapid.OneOf(rapid.Uint64Range(0, 3), rapid.Uint64Range(500, 5000)).Draw(t, label+".first")}
	if (n == 0 && extra > 0) || label == "src" {
		// a poller on an empty store starts at instance 0 (NewPoller has no access to the
		// store's first instance): such stores begin at 0
		s.first = 0
	}
	initial := vgen.Entries(t, label+".init", 1, 6).Entries
	st, err := certstore.CreateStore(ctx, s.ds, s.first, initial)
	if err != nil {
		t.Fatalf("HARNESS: %v", err)
	}
	s.st = st
	s.tables = []gpbft.PowerEntries{initial}
	var future []*certs.FinalityCertificate
	var futureTables []gpbft.PowerEntries
	cur := initial
	base := head(s)
	for i := 0; i < n+extra; i++ {
		c, nt := vgen.NextCert(t, fmt.Sprintf("%s.c%d", label, i), nn, s.first+uint64(i), cur, base, 2)
		// full quorum signatures over the code's own payload encoding are what a real network produces
		if i < n {
			if err := st.Put(ctx, c); err != nil {
				t.Fatalf("HARNESS: put: %v", err)
			}
			s.certs = append(s.certs, c)
			s.tables = append(s.tables, nt)
		} else {
			future = append(future, c)
			futureTables = append(futureTables, nt)
		}
		cur = nt
		base = c.ECChain.TipSets[len(c.ECChain.TipSets)-1]
	}
	return s, future, futureTables
}

func certBytes(c *certs.FinalityCertificate) []byte {
	var b bytes.Buffer
	if err := c.MarshalCBOR(&b); err != nil {
		panic(err)
	}
	return b.Bytes()
}

func newNet(t vev.FailTB, n int) (mocknet.Mocknet, []host.Host) {
	mn := mocknet.New()
	var hs []host.Host
	for i := 0; i < n; i++ {
		h, err := mn.GenPeer()
		if err != nil {
			t.Fatalf("HARNESS: GenPeer: %v", err)
		}
		hs = append(hs, h)
	}
	if err := mn.LinkAll(); err != nil {
		t.Fatalf("HARNESS: LinkAll: %v", err)
	}
	if err := mn.ConnectAllButSelf(); err != nil {
		t.Fatalf("HARNESS: ConnectAll: %v", err)
	}
	return mn, hs
}

// newNetUnconnected links the hosts but leaves connecting to the caller (so that
// pubsub instances exist before the Connected notifications fire).
func newNetUnconnected(t vev.FailTB, n int) (mocknet.Mocknet, []host.Host) {
	mn := mocknet.New()
	var hs []host.Host
	for i := 0; i < n; i++ {
		h, err := mn.GenPeer()
		if err != nil {
			t.Fatalf("HARNESS: GenPeer: %v", err)
		}
		hs = append(hs, h)
	}
	if err := mn.LinkAll(); err != nil {
		t.Fatalf("HARNESS: LinkAll: %v", err)
	}
	return mn, hs
}

// rawRequest writes req on a fresh stream and returns everything the server wrote.
func rawRequest(ctx context.Context, from host.Host, to host.Host, req *certexchange.Request) ([]byte, error) {
	s, err := from.NewStream(ctx, to.ID(), certexchange.FetchProtocolName(nn))
	if err != nil {
		return nil, err
	}
	defer s.Reset()
	_ = s.SetDeadline(time.Now().Add(20 * time.Second))
	bw := bufio.NewWriter(s)
	if err := req.MarshalCBOR(bw); err != nil {
		return nil, err
	}
	if err := bw.Flush(); err != nil {
		return nil, err
	}
	if err := s.CloseWrite(); err != nil {
		return nil, err
	}
	return io.ReadAll(s)
}

func genRequest(t *rapid.T, s *testStore) *certexchange.Request {
	lo := s.first
	span := int(s.next()-s.first) + 3
	var first uint64
	switch rapid.IntRange(0, 9).Draw(t, "firstmode") {
	case 0:
		first = ^uint64(0) - uint64(rapid.IntRange(0, 300).Draw(t, "nearmax"))
	case 1:
		if lo > 0 {
			first = lo - 1
		}
	default:
		first = lo + uint64(rapid.IntRange(0, span).Draw(t, "firstoff"))
	}
	limit := rapid.OneOf(rapid.SampledFrom([]uint64{0, 1, 2, 3, 255, 256, 257, certexchange.NoLimit}), rapid.Uint64Range(0, 12)).Draw(t, "limit")
	return &certexchange.Request{FirstInstance: first, Limit: limit, IncludePowerTable: rapid.Bool().Draw(t, "withtable")}
}

func TestC16Server(t *testing.T) {
	rapid.Check(t, func(t *rapid.T) {
		ctx, cancel := context.WithTimeout(context.Background(), 600*time.Second)
		defer cancel()
		n := rapid.OneOf(rapid.IntRange(0, 12), rapid.IntRange(250, 270)).Draw(t, "stored")
		if !vev.Thorough() && n > 12 && rapid.IntRange(0, 3).Draw(t, "keepbig") > 0 {
			n = n % 13
		}
		s, future, _ := genStore(t, "s", n, 1)
		orphan := false
		if len(future) > 0 && rapid.IntRange(0, 2).Draw(t, "orphan") == 0 {
			// a Put that died after writing the certificate but before advancing the latest pointer
			// (see C10): the bytes of instance latest+1 are in the datastore, the pointer is not
			key := datastore.NewKey(fmt.Sprintf("/certstore/certs/%016X", s.next()))
			if err := s.ds.Put(ctx, key, certBytes(future[0])); err != nil {
				t.Fatalf("HARNESS: %v", err)
			}
			orphan = true
		}
		mn, hs := newNet(t, 2)
		defer mn.Close()
		srv := &certexchange.Server{NetworkName: nn, Host: hs[0], Store: s.st, RequestTimeout: 30 * time.Second}
		if err := srv.Start(ctx); err != nil {
			t.Fatalf("HARNESS: server start: %v", err)
		}
		defer srv.Stop(context.Background())
		client := &certexchange.Client{Host: hs[1], NetworkName: nn, RequestTimeout: 30 * time.Second}
		nreq := rapid.IntRange(1, 6).Draw(t, "nreq")
		for r := 0; r < nreq; r++ {
			req := genRequest(t, s)
			pending := uint64(0)
			if len(s.certs) > 0 {
				pending = s.next()
			}
			// what may be served
			maxN := req.Limit
			if maxN > 256 {
				maxN = 256
			}
			var want []*certs.FinalityCertificate
			for i := uint64(0); i < maxN; i++ {
				inst := req.FirstInstance + i
				if inst < req.FirstInstance || inst < s.first || inst >= pending {
					break
				}
				want = append(want, s.certs[inst-s.first])
			}
			raw, err := rawRequest(ctx, hs[1], hs[0], req)
			tableExpected := req.IncludePowerTable && pending >= req.FirstInstance
			if err != nil {
				// the server resets the stream when it cannot serve the requested table (before its first instance)
				if tableExpected && req.FirstInstance >= s.first {
					vev.Fail(t, c16, "C16/server/stream-error", "request %+v on store [%d,%d) failed: %v", *req, s.first, s.next(), err)
				}
				vev.Case(c16, vev.Digest("srv-err", s.first, n, fmt.Sprint(*req)), true, "server-reset")
				continue
			}
			br := bytes.NewReader(raw)
			var hdr certexchange.ResponseHeader
			if err := hdr.UnmarshalCBOR(br); err != nil {
				vev.Fail(t, c16, "C16/server/header-undecodable", "request %+v: %v (%d bytes)", *req, err, len(raw))
			}
			if hdr.PendingInstance != pending {
				vev.Fail(t, c16, "C16/server/pending", "request %+v: advertised pending instance %d, store's latest+1 is %d", *req, hdr.PendingInstance, pending)
			}
			if tableExpected {
				if req.FirstInstance >= s.first && !vref.EntriesEq(hdr.PowerTable, s.tables[req.FirstInstance-s.first]) {
					vev.Fail(t, c16, "C16/server/table", "request %+v: returned table is not the store's table for instance %d", *req, req.FirstInstance)
				}
			} else if len(hdr.PowerTable) != 0 {
				vev.Fail(t, c16, "C16/server/unrequested-table", "request %+v: a power table was sent although not requested / not available", *req)
			}
			var got [][]byte
			for br.Len() > 0 {
				start := len(raw) - br.Len()
				var c certs.FinalityCertificate
				if err := c.UnmarshalCBOR(br); err != nil {
					vev.Fail(t, c16, "C16/server/cert-undecodable", "request %+v: certificate #%d on the wire undecodable: %v", *req, len(got), err)
				}
				got = append(got, raw[start:len(raw)-br.Len()])
				if c.GPBFTInstance >= hdr.PendingInstance {
					vev.Fail(t, c16, "C16/server/beyond-pending", "request %+v: served instance %d at or beyond the advertised pending instance %d", *req, c.GPBFTInstance, hdr.PendingInstance)
				}
			}
			if uint64(len(got)) > maxN {
				vev.Fail(t, c16, "C16/server/more-than-requested", "request %+v: %d certificates on the wire, at most %d were requested (server cap 256)", *req, len(got), maxN)
			}
			if len(got) != len(want) {
				vev.Fail(t, c16, "C16/server/count", "request %+v on store [%d,%d): %d certificates on the wire, expected %d", *req, s.first, s.next(), len(got), len(want))
			}
			for i := range got {
				if !bytes.Equal(got[i], certBytes(want[i])) {
					vev.Fail(t, c16, "C16/server/content", "request %+v: certificate #%d on the wire is not the stored certificate of instance %d", *req, i, req.FirstInstance+uint64(i))
				}
			}
			// the same through the client
			rh, ch, err := client.Request(ctx, hs[0].ID(), req)
			if err != nil {
				vev.Fail(t, c16, "C16/client/request-failed", "Client.Request(%+v) failed: %v", *req, err)
			}
			if rh.PendingInstance != pending {
				vev.Fail(t, c16, "C16/client/pending", "client saw pending %d, want %d", rh.PendingInstance, pending)
			}
			k := 0
			for c := range ch {
				if k >= len(want) {
					vev.Fail(t, c16, "C16/client/more-than-requested", "request %+v: client delivered more than %d certificates", *req, len(want))
				}
				if !bytes.Equal(certBytes(c), certBytes(want[k])) {
					vev.Fail(t, c16, "C16/client/content", "request %+v: client certificate #%d differs from the store", *req, k)
				}
				k++
			}
			if k != len(want) {
				vev.Fail(t, c16, "C16/client/count", "request %+v: client delivered %d certificates, expected %d", *req, k, len(want))
			}
			boundary := uint64(len(want)) == maxN || req.FirstInstance+maxN >= pending || req.Limit == 0
			vev.Case(c16, vev.Digest("srv", s.first, n, fmt.Sprint(*req)), boundary, "server-request", fmt.Sprintf("served:%d", min(len(want), 3)), fmt.Sprintf("limit-class:%s", limitClass(req.Limit)), fmt.Sprintf("with-table:%v", req.IncludePowerTable), fmt.Sprintf("orphan-above-pointer:%v", orphan))
			vev.Sample(c16, func() any {
				return map[string]any{"kind": "server-request", "store_first": s.first, "stored": n, "request": fmt.Sprintf("%+v", *req), "served": len(got), "advertised_pending": hdr.PendingInstance}
			})
		}
	})
}

func limitClass(l uint64) string {
	switch {
	case l == 0:
		return "0"
	case l == 1:
		return "1"
	case l < 255:
		return "small"
	case l <= 257:
		return "around-256"
	default:
		return "huge"
	}
}

// ---- poller against a scripted Byzantine responder ---------------------------

type round struct {
	pending  uint64
	items    [][]byte // wire bytes of each certificate as sent
	certs    []*certs.FinalityCertificate
	truncate int // if >0: cut the last item's bytes to this length
	desc     []string
}

func TestC16Poller(t *testing.T) {
	rapid.Check(t, func(t *rapid.T) {
		ctx, cancel := context.WithTimeout(context.Background(), 600*time.Second)
		defer cancel()
		n := rapid.IntRange(0, 4).Draw(t, "stored")
		s, future, futureTables := genStore(t, "s", n, rapid.IntRange(1, 6).Draw(t, "future"))
		mn, hs := newNet(t, 2)
		defer mn.Close()
		// script
		nrounds := rapid.IntRange(1, 3).Draw(t, "rounds")
		var rounds []*round
		localWanted := 0
		if rapid.IntRange(0, 2).Draw(t, "localprogress") == 0 {
			localWanted = rapid.IntRange(1, 3).Draw(t, "localcerts")
			if localWanted > len(future) {
				localWanted = len(future)
			}
		}
		pos := localWanted // index into future of the next honest certificate
		anyBad := false
		for r := 0; r < nrounds; r++ {
			rd := &round{}
			k := rapid.IntRange(0, 4).Draw(t, "items")
			p := pos
			for i := 0; i < k; i++ {
				kind := rapid.SampledFrom([]string{"next", "next", "next", "forged-sig", "skip-one", "repeat-prev", "stale", "wrong-delta", "under-quorum"}).Draw(t, "item")
				var c *certs.FinalityCertificate
				switch kind {
				case "next":
					if p >= len(future) {
						continue
					}
					c = vgen.CloneCert(future[p])
					p++
				case "forged-sig":
					if p >= len(future) {
						continue
					}
					c = vgen.CloneCert(future[p])
					c.Signature[3] ^= 0x55
					p++
					anyBad = true
				case "skip-one":
					if p+1 >= len(future) {
						continue
					}
					c = vgen.CloneCert(future[p+1])
					p += 2
					anyBad = true
				case "repeat-prev":
					if p == 0 {
						continue
					}
					c = vgen.CloneCert(future[p-1])
					anyBad = true
				case "stale":
					if len(s.certs) == 0 {
						continue
					}
					c = vgen.CloneCert(s.certs[0])
					anyBad = true
				case "wrong-delta":
					if p >= len(future) {
						continue
					}
					c = vgen.CloneCert(future[p])
					c.PowerTableDelta = append(c.PowerTableDelta, certs.PowerTableDelta{ParticipantID: 1 << 47, PowerDelta: gpbft.NewStoragePower(9), SigningKey: []byte("zz")})
					p++
					anyBad = true
				case "under-quorum":
					if p >= len(future) {
						continue
					}
					c = vgen.CloneCert(future[p])
					tbl := s.tables[len(s.tables)-1]
					if p > 0 {
						tbl = futureTables[p-1]
					}
					vgen.SignCert(nn, tbl, c, vgen.SignerSet(t, "uq", tbl, "under"))
					p++
					anyBad = true
				}
				rd.certs = append(rd.certs, c)
				rd.items = append(rd.items, certBytes(c))
				rd.desc = append(rd.desc, fmt.Sprintf("%s@%d", kind, c.GPBFTInstance))
			}
			pos = p
			if len(rd.items) > 0 && rapid.IntRange(0, 5).Draw(t, "truncate") == 0 {
				last := rd.items[len(rd.items)-1]
				rd.truncate = rapid.IntRange(1, len(last)-1).Draw(t, "truncat")
				rd.desc = append(rd.desc, fmt.Sprintf("truncated-to-%d", rd.truncate))
				anyBad = true
			}
			switch rapid.IntRange(0, 3).Draw(t, "pendingmode") {
			case 0:
				rd.pending = s.next() + uint64(pos) // honest
			case 1:
				rd.pending = s.next() + uint64(pos) + uint64(rapid.IntRange(1, 5).Draw(t, "overclaim"))
			case 2:
				rd.pending = 0
			default:
				rd.pending = s.first + uint64(rapid.IntRange(0, n+len(future)+2).Draw(t, "pendingany"))
			}
			rounds = append(rounds, rd)
		}
		// local progress while a request is in flight: the node's own consensus stores the next
		// certificates between the poller's catch-up and the arrival of the response
		midRound, midCount := -1, 0
		if rapid.IntRange(0, 2).Draw(t, "midprogress") == 0 {
			midRound = rapid.IntRange(0, nrounds-1).Draw(t, "midround")
			midCount = rapid.IntRange(1, 3).Draw(t, "midcount")
		}
		var midMu sync.Mutex
		var midErr error
		midDone := 0
		reqNo := 0
		var seenFirst []uint64
		hs[0].SetStreamHandler(certexchange.FetchProtocolName(nn), func(st network.Stream) {
			defer st.Close()
			var req certexchange.Request
			if err := req.UnmarshalCBOR(bufio.NewReader(st)); err != nil {
				_ = st.Reset()
				return
			}
			seenFirst = append(seenFirst, req.FirstInstance)
			bw := bufio.NewWriter(st)
			var rd *round
			if reqNo < len(rounds) {
				rd = rounds[reqNo]
			} else {
				rd = &round{}
			}
			if reqNo == midRound {
				midMu.Lock()
				for k := 0; k < midCount; k++ {
					idx := 0
					if l := s.st.Latest(); l != nil {
						idx = int(l.GPBFTInstance + 1 - s.next())
					}
					if idx < 0 || idx >= len(future) {
						break
					}
					if err := s.st.Put(ctx, future[idx]); err != nil {
						midErr = err
						break
					}
					midDone++
				}
				midMu.Unlock()
			}
			reqNo++
			hdr := certexchange.ResponseHeader{PendingInstance: rd.pending}
			_ = hdr.MarshalCBOR(bw)
			for i, it := range rd.items {
				if rd.truncate > 0 && i == len(rd.items)-1 {
					_, _ = bw.Write(it[:rd.truncate])
				} else {
					_, _ = bw.Write(it)
				}
			}
			_ = bw.Flush()
		})
		client := &certexchange.Client{Host: hs[1], NetworkName: nn, RequestTimeout: 30 * time.Second}
		poller, err := polling.NewPoller(ctx, client, s.st, vcrypto.Scheme{})
		if err != nil {
			t.Fatalf("HARNESS: NewPoller: %v", err)
		}
		// local progress between poller construction and the poll: the node's own consensus
		// stored some certificates itself (the poller has to catch up from the store first)
		local := 0
		if localWanted > 0 {
			for ; local < localWanted && local < len(future); local++ {
				if err := s.st.Put(ctx, future[local]); err != nil {
					t.Fatalf("HARNESS: local put: %v", err)
				}
			}
		}
		// ---- model
		next := s.next() + uint64(local)
		table := s.tables[len(s.tables)-1]
		if local > 0 {
			table = futureTables[local-1]
		}
		status := polling.PollMiss
		received := 0
		storeNext := next // the model's store: certificates of s.next()..storeNext-1 are future[0..]
		tableAt := func(inst uint64) gpbft.PowerEntries {
			if k := int(inst - s.next()); k > 0 {
				return futureTables[k-1]
			}
			return s.tables[len(s.tables)-1]
		}
		modelMid := 0
	model:
		// (a request beyond the script is answered with an empty response advertising pending 0)
		for ri, rd := range append(append([]*round(nil), rounds...), &round{}) {
			// catch-up from the store before every request
			if storeNext > next {
				next, table = storeNext, tableAt(storeNext)
			}
			if ri == midRound {
				for k := 0; k < midCount && int(storeNext-s.next()) < len(future); k++ {
					storeNext++
					modelMid++
				}
			}
			if rd.pending >= next {
				status = polling.PollHit
			}
			first := next
			for i, c := range rd.certs {
				if uint64(i) >= 256 {
					break
				}
				if rd.truncate > 0 && i == len(rd.certs)-1 {
					break // undecodable tail: the channel just ends
				}
				if c.GPBFTInstance != first+uint64(i) {
					break // out of sequence: the client ends the channel without delivering it
				}
				r := vref.ValidateCerts(nn, table, next, nil, []*certs.FinalityCertificate{c})
				if r.ValidPrefix != 1 {
					status = polling.PollIllegal
					break model
				}
				received++
				next, table = r.NextInstance, r.Table
				if next > storeNext {
					storeNext = next // newer than everything stored: the poller stores it
				}
			}
			if rd.pending <= next {
				break
			}
			if received == 0 {
				status = polling.PollFailed
				break
			}
		}
		res, err := poller.Poll(ctx, hs[0].ID())
		if err != nil {
			vev.Fail(t, c16, "C16/poller/internal-error", "Poll returned an internal error: %v; script %v", err, describeRounds(rounds))
		}
		lat := s.st.Latest()
		gotNext := s.first
		if lat != nil {
			gotNext = lat.GPBFTInstance + 1
		}
		midMu.Lock()
		defer midMu.Unlock()
		if midErr != nil || midDone != modelMid {
			t.Fatalf("HARNESS: local progress during the request: %d certificates stored (model %d), error %v", midDone, modelMid, midErr)
		}
		if gotNext != storeNext {
			vev.Fail(t, c16, "C16/poller/store-advance", "store advanced to next instance %d, the valid prefix (and the node's own progress) ends at %d (started at %d); script %v; status %v err %v", gotNext, storeNext, s.next(), describeRounds(rounds), res.Status, res.Error)
		}
		for i := 0; i < int(storeNext-s.next()); i++ {
			g, err := s.st.Get(ctx, s.next()+uint64(i))
			if err != nil || !bytes.Equal(certBytes(g), certBytes(future[i])) {
				vev.Fail(t, c16, "C16/poller/stored-content", "stored certificate %d is not the validated one (%v)", s.next()+uint64(i), err)
			}
		}
		if poller.NextInstance != next {
			vev.Fail(t, c16, "C16/poller/next-instance", "poller.NextInstance=%d, want %d; script %v", poller.NextInstance, next, describeRounds(rounds))
		}
		if !vref.EntriesEq(poller.PowerTable, table) {
			vev.Fail(t, c16, "C16/poller/power-table", "poller.PowerTable is not the table after the valid prefix; script %v", describeRounds(rounds))
		}
		if res.Status != status {
			vev.Fail(t, c16, "C16/poller/status", "poll status %v, model says %v; script %v (err %v)", res.Status, status, describeRounds(rounds), res.Error)
		}
		vev.Case(c16, vev.Digest("poll", s.first, n, fmt.Sprint(describeRounds(rounds))), anyBad, "poll", "poll-status:"+status.String(), fmt.Sprintf("poll-advanced:%d", max(0, min(int(next-s.next())-local-modelMid, 4))), fmt.Sprintf("local-progress:%d", local), fmt.Sprintf("local-progress-during-request:%d", modelMid), fmt.Sprintf("script-has-bad-item:%v", anyBad))
		vev.Sample(c16, func() any {
			return map[string]any{"kind": "poll", "store_next": s.next(), "script": describeRounds(rounds), "model_next": next, "model_status": status.String(), "requests_seen": seenFirst}
		})
	})
}

func describeRounds(rs []*round) []string {
	var out []string
	for i, r := range rs {
		out = append(out, fmt.Sprintf("round%d{pending=%d items=%v}", i, r.pending, r.desc))
	}
	return out
}
