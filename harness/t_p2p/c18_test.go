package t_p2p

import (
	"context"
	"math"
	"fmt"
	"sync"
	"testing"
	"time"

	"github.com/filecoin-project/go-f3/chainexchange"
	"github.com/filecoin-project/go-f3/gpbft"
	"github.com/filecoin-project/go-f3/internal/clock"
	"github.com/filecoin-project/go-f3/verifharness/vev"
	"github.com/filecoin-project/go-f3/verifharness/vgen"
	"github.com/filecoin-project/go-f3/verifharness/vref"
	pubsub "github.com/libp2p/go-libp2p-pubsub"
	"pgregory.net/rapid"
)

const c18 = "C18"
const c18rule = "generated histories on a real PubSubChainExchange (own gossipsub over an in-process libp2p host; capacities 2..16, chains no longer than the capacities, mock clock): lookups by key (known chains, their prefixes, unknown keys), own broadcasts, remote broadcasts of every class {valid current, valid future within the look-ahead, past, too distant, empty, malformed, wrong base, stale or future timestamp, undecodable} pushed through the real pubsub validator and then the discovered-chain cache, floods of unsolicited chains larger than the discovered capacity, prunes and progress changes. " +
	"Oracle: validator verdict per class; a returned chain always has the requested key (recomputed independently); immediately after admission the chain and every prefix are retrievable; a key that was asked for and whose chain was then admitted stays retrievable across later floods while the number of wanted keys is within the wanted capacity; prune(i) removes exactly the instances below i. Non-trivial = history with ask-then-receive followed by a flood beyond the discovered capacity, or a prune between them; distinct by digest of the trace"

type progressBox struct {
	mu sync.Mutex
	p  gpbft.InstanceProgress
}

func (b *progressBox) get() gpbft.InstanceProgress  { b.mu.Lock(); defer b.mu.Unlock(); return b.p }
func (b *progressBox) set(p gpbft.InstanceProgress) { b.mu.Lock(); defer b.mu.Unlock(); b.p = p }

type obligation struct {
	instance uint64
	chain    *gpbft.ECChain
	why      string
	// dormant: not looked up until a flood hit its instance (a lookup would promote the
	// chain into the wanted cache and hide whether admission itself honoured the request)
	dormant *bool
}

func TestC18ChainExchange(t *testing.T) {
	rapid.Check(t, func(t *rapid.T) {
		ctx, cancel := context.WithTimeout(context.Background(), 600*time.Second)
		defer cancel()
		mn, hs := newNet(t, 1)
		defer mn.Close()
		ps, err := pubsub.NewGossipSub(ctx, hs[0])
		if err != nil {
			t.Fatalf("HARNESS: gossipsub: %v", err)
		}
		capD := rapid.IntRange(2, 16).Draw(t, "discoveredCap")
		capW := rapid.IntRange(4, 16).Draw(t, "wantedCap")
		bigChains := rapid.IntRange(0, 39).Draw(t, "bigchains") == 0
		if bigChains {
			// chains of up to the maximum length (128 tipsets) need capacities to match
			capD = rapid.IntRange(128, 160).Draw(t, "discoveredCapBig")
			capW = rapid.IntRange(128, 160).Draw(t, "wantedCapBig")
		}
		lookahead := uint64(rapid.IntRange(0, 3).Draw(t, "lookahead"))
		maxAge := time.Duration(rapid.IntRange(1, 10).Draw(t, "maxAgeSec")) * time.Second
		clk := clock.NewMock()
		clk.Set(time.Unix(1_700_000_000, 0))
		box := &progressBox{}
		cur := uint64(rapid.IntRange(1, 20).Draw(t, "instance"))
		maxLen := min(capD, capW, 128)
		baseOf := func(inst uint64) *gpbft.TipSet {
			return &gpbft.TipSet{Epoch: 10 + int64(inst), Key: vgen.DetBytes(8, "ibase", inst), PowerTable: vgen.DetCid("ibase", inst)}
		}
		input := vgen.Chain(baseOf(cur))
		box.set(gpbft.InstanceProgress{Instant: gpbft.Instant{ID: cur, Phase: gpbft.QUALITY_PHASE}, Input: input})
		cx, err := chainexchange.NewPubSubChainExchange(
			chainexchange.WithProgress(box.get), chainexchange.WithPubSub(ps), chainexchange.WithTopicName("c18"),
			chainexchange.WithMaxDiscoveredChainsPerInstance(capD), chainexchange.WithMaxWantedChainsPerInstance(capW),
			chainexchange.WithMaxInstanceLookahead(lookahead), chainexchange.WithMaxTimestampAge(maxAge), chainexchange.WithClock(clk),
			chainexchange.WithCompression(rapid.Bool().Draw(t, "compression")))
		if err != nil {
			t.Fatalf("HARNESS: NewPubSubChainExchange: %v", err)
		}
		// chains: per instance a few branches over the instance's base
		mkChain := func(label string, inst uint64, b *gpbft.TipSet) *gpbft.ECChain {
			n := rapid.IntRange(1, maxLen).Draw(t, label+".len")
			if bigChains && rapid.Bool().Draw(t, label+".long") {
				n = rapid.IntRange(100, 128).Draw(t, label+".longlen")
			}
			ts := []*gpbft.TipSet{b}
			e := b.Epoch
			for i := 1; i < n; i++ {
				e += int64(rapid.IntRange(1, 2).Draw(t, label+".gap"))
				ts = append(ts, &gpbft.TipSet{Epoch: e, Key: vgen.DetBytes(8, label, inst, i), PowerTable: vgen.DetCid(label, inst, i)})
			}
			return vgen.Chain(ts...)
		}
		wanted := map[uint64]map[[32]byte]bool{} // keys the node asked for / broadcast itself, per instance
		var obligations []obligation             // chains that must stay retrievable
		var pool []obligation                    // every chain ever generated (for lookups)
		wantKey := func(inst uint64, k [32]byte) {
			if wanted[inst] == nil {
				wanted[inst] = map[[32]byte]bool{}
			}
			wanted[inst][k] = true
		}
		pruned := uint64(0)
		var trace []string
		askThenReceive, floods, prunes, rebroadcasts, sharedPrefixes := 0, 0, 0, 0, 0
		lookup := func(inst uint64, c *gpbft.ECChain, must bool, why string) bool {
			k := vref.ChainKey(c)
			got, ok := cx.GetChainByInstance(ctx, inst, gpbft.ECChainKey(k))
			wantKey(inst, k)
			if ok {
				if vref.ChainKey(got) != k || !vref.ChainEq(got, c) {
					vev.Fail(t, c18, "C18/lookup/wrong-chain", "lookup of key %x at instance %d returned a chain with key %x; trace %v", k[:4], inst, vref.ChainKey(got), trace)
				}
			} else if must {
				vev.Fail(t, c18, "C18/retention/"+why, "chain of %d tipsets (key %x) at instance %d is not retrievable although %s; capacities discovered=%d wanted=%d, wanted keys at that instance=%d; trace %v", c.Len(), k[:4], inst, why, capD, capW, len(wanted[inst]), trace)
			}
			return ok
		}
		var absTS *int64 // when set, the next admitted message carries exactly this timestamp
		admit := func(label string, inst uint64, c *gpbft.ECChain, tsOffset time.Duration, raw []byte) (bool, string) {
			var data []byte
			if raw != nil {
				data = raw
			} else {
				m := &chainexchange.Message{Instance: inst, Chain: c, Timestamp: clk.Now().Add(tsOffset).UnixMilli()}
				if absTS != nil {
					m.Timestamp = *absTS
					absTS = nil
				}
				var err error
				if data, err = cx.VerifEncode(m); err != nil {
					return false, "unencodable"
				}
			}
			res, cm := cx.VerifValidate(ctx, data)
			if res == pubsub.ValidationAccept {
				cx.VerifCacheAsDiscovered(ctx, *cm)
				return true, "accept"
			}
			if res == pubsub.ValidationReject {
				return false, "reject"
			}
			return false, "ignore"
		}
		steps := rapid.IntRange(3, 40).Draw(t, "steps")
		for s := 0; s < steps; s++ {
			action := rapid.SampledFrom([]string{"remote-valid", "remote-valid", "remote-bad", "ask-then-receive", "own-broadcast", "flood", "lookup", "prune", "progress", "check-obligations"}).Draw(t, "action")
			label := fmt.Sprintf("s%d", s)
			switch action {
			case "remote-valid", "ask-then-receive":
				inst := cur + uint64(rapid.IntRange(0, int(lookahead)).Draw(t, "instoff"))
				c := mkChain(label, inst, baseOf(inst))
				// a third of the remote chains are related to one the node has seen: the same chain
				// again (periodic re-broadcast) or a chain sharing a proper prefix with it
				var related []obligation
				for _, o := range pool {
					if o.instance == inst {
						related = append(related, o)
					}
				}
				if len(related) > 0 && rapid.IntRange(0, 1).Draw(t, "related") == 0 {
					o := related[rapid.IntRange(0, len(related)-1).Draw(t, "relidx")]
					if rapid.Bool().Draw(t, "rebroadcast") {
						c = o.chain
						rebroadcasts++
					} else {
						keep := rapid.IntRange(1, o.chain.Len()).Draw(t, "sharedprefix")
						ts := append([]*gpbft.TipSet(nil), o.chain.TipSets[:keep]...)
						e := ts[len(ts)-1].Epoch
						for i := rapid.IntRange(0, maxLen-keep).Draw(t, "forkext"); i > 0; i-- {
							e += int64(rapid.IntRange(1, 2).Draw(t, label+".fgap"))
							ts = append(ts, &gpbft.TipSet{Epoch: e, Key: vgen.DetBytes(8, label, "fork", inst, i), PowerTable: vgen.DetCid(label, "fork", inst, i)})
						}
						c = vgen.Chain(ts...)
						sharedPrefixes++
					}
				}
				pool = append(pool, obligation{inst, c, "", nil})
				if action == "ask-then-receive" {
					// the node asks first (miss leaves a placeholder), then the chain arrives
					if lookup(inst, c, false, "") {
						break
					}
					if len(wanted[inst]) <= capW {
						askThenReceive++
					}
				}
				ok, verdict := admit(label, inst, c, -time.Duration(rapid.IntRange(0, int(maxAge/time.Second)-1).Draw(t, "age"))*time.Second, nil)
				if !ok {
					vev.Fail(t, c18, "C18/validator/valid-rejected", "a valid broadcast for instance %d (current %d, look-ahead %d, %d tipsets) was not admitted: %s; trace %v", inst, cur, lookahead, c.Len(), verdict, trace)
				}
				trace = append(trace, fmt.Sprintf("%s(i%d,len%d)", action, inst, c.Len()))
				deferChecks := action == "ask-then-receive" && len(wanted[inst]) <= capW && rapid.IntRange(0, 3).Draw(t, "defer") > 0
				if deferChecks {
					d := true
					obligations = append(obligations, obligation{inst, c, "asked-for-then-admitted-then-flooded", &d})
					break
				}
				// immediately after admission: the chain and every prefix are retrievable
				for l := c.Len(); l >= 1; l-- {
					p := &gpbft.ECChain{TipSets: c.TipSets[:l]}
					if len(wanted[inst])+1 > capW {
						break // looking up more keys than the wanted capacity voids the obligation
					}
					lookup(inst, p, true, "admitted-just-now")
				}
				if action == "ask-then-receive" && len(wanted[inst]) <= capW {
					obligations = append(obligations, obligation{inst, c, "asked-for-then-admitted", nil})
				}
			case "remote-bad":
				kind := rapid.SampledFrom([]string{"past", "too-distant", "empty", "malformed", "wrong-base", "stale", "future-timestamp", "undecodable", "timestamp-far-outside"}).Draw(t, "bad")
				inst := cur
				c := mkChain(label, inst, baseOf(inst))
				off := time.Duration(0)
				var raw []byte
				switch kind {
				case "past":
					if cur == 0 {
						continue
					}
					inst = cur - 1
				case "too-distant":
					inst = cur + lookahead + 1 + uint64(rapid.IntRange(0, 3).Draw(t, "far"))
				case "empty":
					c = &gpbft.ECChain{}
				case "malformed":
					c = vgen.CloneChain(c)
					c.TipSets[c.Len()-1].Key = nil
				case "wrong-base":
					c = mkChain(label, inst, &gpbft.TipSet{Epoch: 10, Key: []byte("other-base"), PowerTable: vgen.DetCid("ob")})
				case "stale":
					off = -maxAge - time.Duration(rapid.IntRange(1, 5000).Draw(t, "staleMs"))*time.Millisecond
				case "future-timestamp":
					off = time.Duration(rapid.IntRange(1, 5000).Draw(t, "futureMs")) * time.Millisecond
				case "timestamp-far-outside":
					// timestamps far outside the window, across the whole int64 range (milliseconds):
					// none of them is within maxAge of now
					now := clk.Now().UnixMilli()
					ts := rapid.SampledFrom([]int64{0, 1, -1, math.MinInt64, math.MinInt64 + 1, math.MaxInt64, math.MaxInt64 - 1,
						now - (1 << 40), now - (1 << 43), now - (1 << 44), now - 13_000_000_000_000, now - 9_300_000_000_000, now - 27_700_000_000_000, now - (1 << 62),
						now + (1 << 40), now + (1 << 43), now + 13_000_000_000_000}).Draw(t, "farts")
					if rapid.Bool().Draw(t, "farjitter") {
						ts += int64(rapid.IntRange(-100000, 100000).Draw(t, "farjit")) * 1000
						if d := now - ts; d >= 0 && d <= maxAge.Milliseconds() {
							ts = now - maxAge.Milliseconds() - 1
						}
					}
					absTS = &ts
				case "undecodable":
					raw = vgen.DetBytes(rapid.IntRange(0, 40).Draw(t, "rawlen"), "garbage", s)
				}
				ok, verdict := admit(label, inst, c, off, raw)
				if kind == "wrong-base" && box.get().Input == nil {
					// the instance's input is not known yet: there is nothing to contradict
					trace = append(trace, "bad:wrong-base(no-input)->"+verdict)
					continue
				}
				if ok {
					vev.Fail(t, c18, "C18/validator/bad-admitted", "a %s broadcast was admitted (instance %d, current %d, look-ahead %d); trace %v", kind, inst, cur, lookahead, trace)
				}
				trace = append(trace, fmt.Sprintf("bad:%s->%s", kind, verdict))
				vev.Label(c18, "bad:"+kind+"->"+verdict)
			case "own-broadcast":
				inst := cur
				c := mkChain(label, inst, baseOf(inst))
				if len(wanted[inst])+c.Len() > capW {
					continue
				}
				cx.VerifCacheAsWanted(ctx, chainexchange.Message{Instance: inst, Chain: c, Timestamp: clk.Now().UnixMilli()})
				for l := 1; l <= c.Len(); l++ {
					wantKey(inst, vref.ChainKey(&gpbft.ECChain{TipSets: c.TipSets[:l]}))
				}
				pool = append(pool, obligation{inst, c, "", nil})
				obligations = append(obligations, obligation{inst, c, "own-broadcast", nil})
				trace = append(trace, fmt.Sprintf("own(i%d,len%d)", inst, c.Len()))
			case "flood":
				inst := cur + uint64(rapid.IntRange(0, int(lookahead)).Draw(t, "instoff"))
				nf := capD + rapid.IntRange(1, min(2*capD, 40)).Draw(t, "floodsize")
				for f := 0; f < nf; f++ {
					fc := vgen.Chain(baseOf(inst), &gpbft.TipSet{Epoch: baseOf(inst).Epoch + 1, Key: vgen.DetBytes(8, "flood", s, f), PowerTable: vgen.DetCid("flood", s, f)})
					if ok, v := admit(label, inst, fc, 0, nil); !ok {
						vev.Fail(t, c18, "C18/validator/valid-rejected", "flood chain not admitted: %s", v)
					}
				}
				floods++
				for _, o := range obligations {
					if o.dormant != nil && o.instance == inst {
						*o.dormant = false
					}
				}
				trace = append(trace, fmt.Sprintf("flood(i%d,%d)", inst, nf))
			case "lookup":
				if len(pool) == 0 {
					continue
				}
				o := pool[rapid.IntRange(0, len(pool)-1).Draw(t, "poolidx")]
				dormant := false
				for _, ob := range obligations {
					if ob.dormant != nil && *ob.dormant && ob.chain == o.chain {
						dormant = true
					}
				}
				if dormant {
					continue
				}
				l := rapid.IntRange(1, o.chain.Len()).Draw(t, "prefixlen")
				if len(wanted[o.instance])+1 > capW {
					continue
				}
				ok := lookup(o.instance, &gpbft.ECChain{TipSets: o.chain.TipSets[:l]}, false, "")
				trace = append(trace, fmt.Sprintf("lookup(i%d,len%d)->%v", o.instance, l, ok))
			case "prune":
				below := cur + uint64(rapid.IntRange(0, 1).Draw(t, "prunebelow"))
				if err := cx.RemoveChainsByInstance(ctx, below); err != nil {
					vev.Fail(t, c18, "C18/prune/error", "RemoveChainsByInstance(%d): %v", below, err)
				}
				if below > pruned {
					pruned = below
				}
				for inst := range wanted {
					if inst < below {
						delete(wanted, inst)
					}
				}
				prunes++
				trace = append(trace, fmt.Sprintf("prune(<%d)", below))
				// nothing below is retrievable, everything at or above unchanged
				var keepPool, keepObl []obligation
				for _, o := range pool {
					if o.instance < below {
						if _, ok := cx.GetChainByInstance(ctx, o.instance, gpbft.ECChainKey(vref.ChainKey(o.chain))); ok {
							vev.Fail(t, c18, "C18/prune/still-retrievable", "chain at instance %d still retrievable after pruning below %d; trace %v", o.instance, below, trace)
						}
						// that lookup left a placeholder behind: it is a wanted key again
						wantKey(o.instance, vref.ChainKey(o.chain))
					} else {
						keepPool = append(keepPool, o)
					}
				}
				for _, o := range obligations {
					if o.instance >= below {
						keepObl = append(keepObl, o)
					}
				}
				pool, obligations = keepPool, keepObl
			case "progress":
				cur += uint64(rapid.IntRange(0, 1).Draw(t, "advance"))
				var in *gpbft.ECChain
				if rapid.IntRange(0, 3).Draw(t, "inputknown") > 0 {
					in = vgen.Chain(baseOf(cur))
				}
				box.set(gpbft.InstanceProgress{Instant: gpbft.Instant{ID: cur, Phase: gpbft.QUALITY_PHASE}, Input: in})
				clk.Add(time.Duration(rapid.IntRange(0, 3).Draw(t, "tick")) * time.Second)
				trace = append(trace, fmt.Sprintf("progress(i%d,input=%v)", cur, in != nil))
			case "check-obligations":
			}
			// retention obligations hold after every step
			for _, o := range obligations {
				if len(wanted[o.instance]) > capW || (o.dormant != nil && *o.dormant) {
					continue
				}
				lookup(o.instance, o.chain, true, o.why)
			}
		}
		nt := (askThenReceive > 0 && floods > 0) || (askThenReceive > 0 && prunes > 0)
		vev.Case(c18, vev.Digest(fmt.Sprint(trace), capD, capW), nt, "history", fmt.Sprintf("ask-then-receive:%v", askThenReceive > 0), fmt.Sprintf("flood:%v", floods > 0), fmt.Sprintf("prune:%v", prunes > 0), fmt.Sprintf("chains-up-to-max-length:%v", bigChains), fmt.Sprintf("rebroadcast-of-known-chain:%v", rebroadcasts > 0), fmt.Sprintf("chains-sharing-a-prefix:%v", sharedPrefixes > 0))
		vev.Sample(c18, func() any {
			return map[string]any{"discovered_capacity": capD, "wanted_capacity": capW, "lookahead": lookahead, "trace": trace}
		})
	})
}
