package t_p2p

import (
	"bufio"
	"bytes"
	"context"
	"fmt"
	"testing"
	"time"

	"github.com/filecoin-project/go-f3/certexchange"
	"github.com/filecoin-project/go-f3/certs"
	"github.com/filecoin-project/go-f3/verifharness/vev"
	"github.com/filecoin-project/go-f3/verifharness/vgen"
	"github.com/libp2p/go-libp2p/core/network"
	"pgregory.net/rapid"
)

// TestC16Client: the client against a scripted responder. Whatever the responder writes, the
// channel returned by Client.Request only ever delivers certificates for first, first+1, ...
// (in that order, byte-identical to what was sent), at most min(limit, 256) of them, and the
// first out-of-sequence, over-limit or undecodable item ends the channel without being delivered.
func TestC16Client(t *testing.T) {
	rapid.Check(t, func(t *rapid.T) {
		ctx, cancel := context.WithTimeout(context.Background(), 600*time.Second)
		defer cancel()
		_, pool, _ := genStore(t, "s", 0, rapid.IntRange(2, 10).Draw(t, "pool"))
		mn, hs := newNet(t, 2)
		defer mn.Close()
		base := pool[0].GPBFTInstance
		first := base + uint64(rapid.IntRange(0, len(pool)-1).Draw(t, "first"))
		limit := rapid.SampledFrom([]uint64{0, 1, 2, 3, 256, 257, certexchange.NoLimit}).Draw(t, "limit")
		// script: a run of pool certificates starting somewhere, with edits
		start := rapid.SampledFrom([]string{"at-first", "at-first", "later", "earlier", "anywhere"}).Draw(t, "start")
		pos := int(first - base)
		switch start {
		case "later":
			pos = min(len(pool)-1, pos+rapid.IntRange(1, 3).Draw(t, "shift"))
		case "earlier":
			pos = max(0, pos-rapid.IntRange(1, 3).Draw(t, "shift"))
		case "anywhere":
			pos = rapid.IntRange(0, len(pool)-1).Draw(t, "pos")
		}
		var sent []*certs.FinalityCertificate
		var desc []string
		k := rapid.IntRange(0, 6).Draw(t, "items")
		for i := 0; i < k && pos < len(pool); i++ {
			switch rapid.SampledFrom([]string{"next", "next", "next", "next", "repeat", "skip"}).Draw(t, "edit") {
			case "repeat":
				if pos > 0 {
					pos--
				}
			case "skip":
				if pos+1 < len(pool) {
					pos++
				}
			}
			sent = append(sent, vgen.CloneCert(pool[pos]))
			desc = append(desc, fmt.Sprint(pool[pos].GPBFTInstance))
			pos++
		}
		garbageTail := rapid.IntRange(0, 4).Draw(t, "garbage") == 0
		hs[0].SetStreamHandler(certexchange.FetchProtocolName(nn), func(st network.Stream) {
			defer st.Close()
			var req certexchange.Request
			if err := req.UnmarshalCBOR(bufio.NewReader(st)); err != nil {
				_ = st.Reset()
				return
			}
			bw := bufio.NewWriter(st)
			hdr := certexchange.ResponseHeader{PendingInstance: base + uint64(len(pool))}
			_ = hdr.MarshalCBOR(bw)
			for _, c := range sent {
				_, _ = bw.Write(certBytes(c))
			}
			if garbageTail {
				_, _ = bw.Write([]byte{0x9b, 0xff, 0xff, 0xff, 0xff, 0x01, 0x02})
			}
			_ = bw.Flush()
		})
		client := &certexchange.Client{Host: hs[1], NetworkName: nn, RequestTimeout: 30 * time.Second}
		_, ch, err := client.Request(ctx, hs[0].ID(), &certexchange.Request{FirstInstance: first, Limit: limit})
		if err != nil {
			vev.Fail(t, c16, "C16/client/request-failed", "Client.Request failed against a responder that sends a well-formed header: %v", err)
		}
		var got []*certs.FinalityCertificate
		for c := range ch {
			got = append(got, c)
		}
		// model: the longest prefix of what was sent that is in sequence from first and within the limit
		maxN := uint64(256)
		if limit < maxN {
			maxN = limit
		}
		var want []*certs.FinalityCertificate
		for i, c := range sent {
			if uint64(i) >= maxN || c.GPBFTInstance != first+uint64(i) {
				break
			}
			want = append(want, c)
		}
		for i, c := range got {
			if c.GPBFTInstance != first+uint64(i) {
				vev.Fail(t, c16, "C16/client/out-of-sequence-delivered", "requested first=%d limit=%d, the responder sent instances %v: certificate #%d handed to the caller is for instance %d", first, limit, desc, i, c.GPBFTInstance)
			}
			if uint64(i) >= maxN {
				vev.Fail(t, c16, "C16/client/over-limit-delivered", "requested limit=%d, the caller received certificate #%d", limit, i)
			}
		}
		if len(got) != len(want) {
			vev.Fail(t, c16, "C16/client/delivered-count", "requested first=%d limit=%d, the responder sent instances %v (garbage tail %v): the caller received %d certificates, the in-sequence prefix within the limit has %d", first, limit, desc, garbageTail, len(got), len(want))
		}
		for i := range want {
			if !bytes.Equal(certBytes(got[i]), certBytes(want[i])) {
				vev.Fail(t, c16, "C16/client/content", "certificate #%d handed to the caller is not the one that was sent", i)
			}
		}
		bad := len(want) != len(sent) || garbageTail
		vev.Case(c16, vev.Digest("client", first, limit, fmt.Sprint(desc), garbageTail), bad, "client-vs-scripted-responder", "client-start:"+start, fmt.Sprintf("client-response-has-offending-item:%v", bad))
	})
}
