package t_p2p

import (
	"context"
	"fmt"
	"math"
	"sync/atomic"
	"testing"
	"time"

	"github.com/filecoin-project/go-f3/certexchange"
	"github.com/filecoin-project/go-f3/certexchange/polling"
	"github.com/filecoin-project/go-f3/certs"
	"github.com/filecoin-project/go-f3/certstore"
	"github.com/filecoin-project/go-f3/gpbft"
	"github.com/filecoin-project/go-f3/internal/clock"
	"github.com/filecoin-project/go-f3/verifharness/vcrypto"
	"github.com/filecoin-project/go-f3/verifharness/vds"
	"github.com/filecoin-project/go-f3/verifharness/vev"
	"github.com/filecoin-project/go-f3/verifharness/votel"
	"github.com/libp2p/go-libp2p/core/network"
	"github.com/libp2p/go-libp2p/core/peer"
	"pgregory.net/rapid"
)

const c20 = "C20"
const c20rule = "generated certificate production patterns (steady one per period, bursts, stall, resume) on 1..3 serving peers (some lagging or empty) behind real certexchange servers, generated min/initial/max intervals; (1) single polling rounds of a real Subscriber: the progress it reports must equal the number of instances by which its store advanced; (2) closed loop: the production run loop on a mock clock in lock-step with the harness (the loop's own gauge, recorded right after it re-arms its timer, hands the harness the exact delay): every delay must equal the interval a shadow production predictor returns when fed the true store advancement, extended by nothing when no mock time passed during its requests; in rounds where a serving peer answers only after mock time has passed (sometimes longer than the interval) the time from poll to poll must lie in [interval, max(interval, request time) + min(request time, interval/2)]; under steady production within [min,max] the settled cadence must be within a factor 2 of the production period. " +
	"Non-trivial = polling round that advanced the store / loop with at least one round that advanced by 1 and one that advanced by 0 or >= 2; distinct by digest of the pattern and settings"

type pollWorld struct {
	sub     *polling.Subscriber
	subSt   *certstore.Store
	servers []*testStore
	chain   []*certs.FinalityCertificate
	clk     *clock.Mock
	stop    func()
	// onRequest runs in a serving peer's handler before it answers
	onRequest atomic.Pointer[func()]
}

// newPollWorld: nPeers serving stores (initially empty), a subscriber with an empty store,
// and a long honest certificate chain to be "produced" over time.
func newPollWorld(t *rapid.T, ctx context.Context, nPeers int, total int, min, initial, max time.Duration) *pollWorld {
	src, _, _ := genStore(t, "src", total, 0)
	// optionally one more peer that does not serve the protocol at all (every request to it fails)
	dead := 0
	if rapid.IntRange(0, 2).Draw(t, "deadpeer") == 0 {
		dead = 1
	}
	mn, hs := newNet(t, nPeers+1+dead)
	w := &pollWorld{chain: src.certs, clk: clock.NewMock()}
	w.clk.Set(time.Unix(1_700_000_000, 0))
	var peers []peer.ID
	for i := 0; i < nPeers; i++ {
		ds := vds.New()
		st, err := certstore.CreateStore(ctx, ds, src.first, src.tables[0])
		if err != nil {
			t.Fatalf("HARNESS: %v", err)
		}
		w.servers = append(w.servers, &testStore{ds: ds, st: st, first: src.first})
		srv := &certexchange.Server{NetworkName: nn, Host: hs[i+1], Store: st, RequestTimeout: 30 * time.Second}
		// the real request handler behind a harness stream handler, so that mock time can pass
		// while a request is in flight (a slow peer)
		hs[i+1].SetStreamHandler(certexchange.FetchProtocolName(nn), func(stream network.Stream) {
			if f := w.onRequest.Load(); f != nil {
				(*f)()
			}
			if err := srv.VerifHandle(ctx, stream); err != nil {
				_ = stream.Reset()
			} else {
				_ = stream.Close()
			}
		})
		peers = append(peers, hs[i+1].ID())
	}
	if dead == 1 {
		peers = append(peers, hs[nPeers+1].ID())
	}
	ds := vds.New()
	st, err := certstore.CreateStore(ctx, ds, src.first, src.tables[0])
	if err != nil {
		t.Fatalf("HARNESS: %v", err)
	}
	w.subSt = st
	w.sub = &polling.Subscriber{
		Client:              certexchange.Client{Host: hs[0], NetworkName: nn, RequestTimeout: 30 * time.Second},
		Store:               st,
		SignatureVerifier:   vcrypto.Scheme{},
		InitialPollInterval: initial, MaximumPollInterval: max, MinimumPollInterval: min,
	}
	if err := w.sub.VerifPrepare(ctx, w.clk, peers); err != nil {
		t.Fatalf("HARNESS: prepare: %v", err)
	}
	w.stop = func() { _ = mn.Close() }
	return w
}

func storeNext(st *certstore.Store, first uint64) uint64 {
	if l := st.Latest(); l != nil {
		return l.GPBFTInstance + 1
	}
	return first
}

// produce makes certificates [have, upTo) of the chain available on serving peer i.
func (w *pollWorld) produce(t vev.FailTB, i int, upTo int) {
	s := w.servers[i]
	for len(s.certs) < upTo && len(s.certs) < len(w.chain) {
		c := w.chain[len(s.certs)]
		if err := s.st.Put(context.Background(), c); err != nil {
			t.Fatalf("HARNESS: produce: %v", err)
		}
		s.certs = append(s.certs, c)
	}
}

// TestC20Progress: single polling rounds report exactly the store's advancement.
func TestC20Progress(t *testing.T) {
	rapid.Check(t, func(t *rapid.T) {
		ctx, cancel := context.WithTimeout(context.Background(), 600*time.Second)
		defer cancel()
		nPeers := rapid.IntRange(1, 3).Draw(t, "peers")
		total := rapid.IntRange(1, 12).Draw(t, "total")
		w := newPollWorld(t, ctx, nPeers, total, time.Second, 10*time.Second, time.Minute)
		defer w.stop()
		rounds := rapid.IntRange(1, 6).Draw(t, "rounds")
		produced := 0
		advancedAny := false
		var trace []string
		for r := 0; r < rounds; r++ {
			produced = min(total, produced+rapid.IntRange(0, 4).Draw(t, "newcerts"))
			for i := range w.servers {
				lag := 0
				if i > 0 {
					lag = rapid.IntRange(0, 3).Draw(t, "lag")
				}
				w.produce(t, i, max(0, produced-lag))
			}
			first := w.servers[0].first
			before := storeNext(w.subSt, first)
			// sometimes the node's own consensus stores the next certificate(s) itself while the
			// round is under way (after the loop looked at the store, before the peers are asked)
			if rapid.IntRange(0, 2).Draw(t, "localduringpoll") == 0 {
				k := rapid.IntRange(1, 2).Draw(t, "localcerts")
				for x := 0; x < k; x++ {
					idx := int(storeNext(w.subSt, first) - first)
					if idx < len(w.chain) {
						if err := w.subSt.Put(ctx, w.chain[idx]); err != nil {
							t.Fatalf("HARNESS: local put: %v", err)
						}
					}
				}
			}
			progress, _, err := w.sub.VerifPoll(ctx)
			if err != nil {
				vev.Fail(t, c20, "C20/poll/internal-error", "poll returned %v", err)
			}
			after := storeNext(w.subSt, first)
			if progress != after-before {
				vev.Fail(t, c20, "C20/poll/progress-not-store-advance", "polling round reported progress %d, the store advanced from instance %d to %d (by %d); %d peers, produced %d", progress, before, after, after-before, nPeers, produced)
			}
			if w.sub.VerifNextInstance() != after {
				vev.Fail(t, c20, "C20/poll/next-instance", "poller next instance %d, store next %d", w.sub.VerifNextInstance(), after)
			}
			if after > before {
				advancedAny = true
			}
			trace = append(trace, fmt.Sprintf("produced=%d advanced=%d", produced, after-before))
		}
		vev.Case(c20, vev.Digest("progress", nPeers, total, fmt.Sprint(trace)), advancedAny, "single-rounds", fmt.Sprintf("advanced:%v", advancedAny))
		vev.Sample(c20, func() any { return map[string]any{"kind": "single-rounds", "peers": nPeers, "rounds": trace} })
	})
}

// TestC20ClosedLoop: the real run loop in lock-step with the harness.
func TestC20ClosedLoop(t *testing.T) {
	votel.Install()
	rapid.Check(t, func(t *rapid.T) {
		ctx, cancel := context.WithTimeout(context.Background(), 900*time.Second)
		defer cancel()
		minI := time.Duration(rapid.SampledFrom([]int{1, 2, 5}).Draw(t, "minSec")) * time.Second
		maxI := time.Duration(rapid.SampledFrom([]int{60, 120, 600}).Draw(t, "maxSec")) * time.Second
		initI := time.Duration(rapid.IntRange(int(minI/time.Second), 60).Draw(t, "initSec")) * time.Second
		pattern := rapid.SampledFrom([]string{"steady", "steady", "bursty", "stall-resume", "fast"}).Draw(t, "pattern")
		period := time.Duration(rapid.IntRange(int(minI/time.Second)+1, 40).Draw(t, "periodSec")) * time.Second
		rounds := rapid.IntRange(15, vev.IntEnv("VERIF_C20_ROUNDS", 60)).Draw(t, "rounds")
		total := 400
		nPeers := rapid.IntRange(1, 2).Draw(t, "peers")
		w := newPollWorld(t, ctx, nPeers, total, minI, initI, maxI)
		defer w.stop()
		delays := make(chan time.Duration)
		proceed := make(chan struct{})
		votel.SetHook(func(name string, v float64) {
			if name != "f3_certexchange_polling_predicted_interval" {
				return
			}
			select {
			case delays <- time.Duration(math.Round(v * float64(time.Second))):
			case <-ctx.Done():
				return
			}
			select {
			case <-proceed:
			case <-ctx.Done():
			}
		})
		defer votel.SetHook(nil)
		loopCtx, stopLoop := context.WithCancel(ctx)
		loopDone := make(chan error, 1)
		go func() { loopDone <- w.sub.VerifRun(loopCtx) }()
		defer func() {
			stopLoop()
			select {
			case <-loopDone:
			case <-time.After(20 * time.Second):
			}
		}()
		type candidate struct {
			seq   []uint64
			carry uint64
		}
		cands := []candidate{{}}
		var localThisRound uint64
		first := w.servers[0].first
		start := w.clk.Now()
		producedAt := func(now time.Time) int {
			el := now.Sub(start)
			switch pattern {
			case "steady":
				return int(el / period)
			case "fast":
				return int(el / (minI / 2))
			case "bursty":
				return int(el/(4*period)) * 4
			default: // stall-resume: nothing in the middle third
				n := int(el / period)
				lo, hi := rounds/3, 2*rounds/3
				if n > lo && n <= hi {
					return lo
				}
				if n > hi {
					return n - (hi - lo)
				}
				return n
			}
		}
		produceUntil := func(at time.Time) {
			n := min(total, producedAt(at))
			for i := range w.servers {
				w.produce(t, i, n)
			}
		}
		// request time: in some rounds the first peer asked answers only after mock time has
		// passed (a slow peer), sometimes longer than the interval that will be predicted
		// (the mock clock may only be moved by one goroutine: the handler hands the request to
		// the harness goroutine, which moves the clock and releases it)
		var pendingReq, consumedReq atomic.Int64
		reqArrived := make(chan int64)
		reqRelease := make(chan struct{})
		hook := func() {
			if d := pendingReq.Swap(0); d > 0 {
				select {
				case reqArrived <- d:
				case <-ctx.Done():
					return
				}
				select {
				case <-reqRelease:
				case <-ctx.Done():
				}
			}
		}
		w.onRequest.Store(&hook)
		slowRounds, overruns, localPuts := 0, 0, 0
		localDuringReq := rapid.Bool().Draw(t, "localduringreq")
		slowLoop := rapid.Bool().Draw(t, "slowloop")
		before := storeNext(w.subSt, first)
		wait := initI
		var obs []time.Duration
		sawOne, sawOther := false, false
		var trace []string
		for r := 0; r < rounds; r++ {
			// let production happen for the time the loop sleeps, then wake it exactly on time
			if r == 0 {
				// the loop goroutine must have armed its initial timer before time moves
				time.Sleep(30 * time.Millisecond)
			}
			// everything produced up to the wake-up time exists before the loop wakes up
			// (production never races with the loop's requests)
			produceUntil(w.clk.Now().Add(wait))
			consumedReq.Store(0)
			pendingReq.Store(0)
			if slowLoop && rapid.IntRange(0, 4).Draw(t, "slowround") == 0 {
				pendingReq.Store(int64(time.Duration(rapid.IntRange(1, 3*int(maxI/time.Second)/2).Draw(t, "reqSec")) * time.Second / time.Duration(rapid.SampledFrom([]int{1, 1, 4, 20}).Draw(t, "reqdiv"))))
			}
			w.clk.Add(wait)
			var d time.Duration
			got := false
			for attempt := 0; !got; attempt++ {
				select {
				case d = <-delays:
					got = true
				case rq := <-reqArrived:
					w.clk.Add(time.Duration(rq))
					consumedReq.Add(rq)
					// sometimes the node's own consensus stores the next certificate while the
					// request is in flight and no peer has it yet (progress without a new
					// certificate from the network: the one case in which the wait is extended)
					if localDuringReq && rapid.Bool().Draw(t, "localnow") {
						idx := int(storeNext(w.subSt, first) - first)
						peersHave := 0
						for _, sv := range w.servers {
							peersHave = max(peersHave, len(sv.certs))
						}
						if idx >= peersHave && idx < len(w.chain) {
							if err := w.subSt.Put(ctx, w.chain[idx]); err != nil {
								t.Fatalf("HARNESS: local put: %v", err)
							}
							localPuts++
							localThisRound++
						}
					}
					reqRelease <- struct{}{}
				case err := <-loopDone:
					vev.Fail(t, c20, "C20/loop/exited", "the polling loop exited: %v", err)
				case <-time.After(map[bool]time.Duration{true: 3 * time.Second, false: 60 * time.Second}[r == 0 && attempt < 5]):
					if r == 0 && attempt < 5 {
						// the initial timer was armed after the clock moved: move it again
						w.clk.Add(wait)
						continue
					}
					t.Fatalf("HARNESS: rendez-vous with the polling loop did not arrive (inconclusive)")
				}
			}
			after := storeNext(w.subSt, first)
			progress := after - before
			before = after
			req := time.Duration(consumedReq.Load())
			pendingReq.Store(0)
			// A certificate stored locally while a request was in flight is seen by the loop either
			// in this round (if it looks at the store again before the round ends) or at the start
			// of the next one: both attributions of that certificate are admissible. The harness
			// keeps every admissible sequence of per-round progress values and drops those the
			// observed waits contradict; the run fails when none is left.
			fits := func(want time.Duration) bool {
				if req == 0 {
					diff := d - want
					return diff >= -time.Microsecond && diff <= time.Microsecond
				}
				total := req + d
				upper := max(want, req) + min(req, want/2)
				return total >= want-time.Microsecond && total <= upper+time.Microsecond
			}
			var next []candidate
			var wants []time.Duration
			for _, c := range cands {
				opts := []candidate{{seq: append(append([]uint64(nil), c.seq...), progress+c.carry)}}
				if localThisRound > 0 && progress >= localThisRound {
					opts = append(opts, candidate{seq: append(append([]uint64(nil), c.seq...), progress+c.carry-localThisRound), carry: localThisRound})
				}
				for _, o := range opts {
					pr := polling.VerifNewPredictor(minI, initI, maxI)
					var want time.Duration
					for _, p := range o.seq {
						want = pr.Update(p)
					}
					wants = append(wants, want)
					if fits(want) {
						next = append(next, o)
					}
				}
			}
			if len(next) > 16 {
				next = next[:16]
			}
			want := wants[0]
			if len(next) == 0 {
				if req == 0 {
					vev.Fail(t, c20, "C20/loop/delay-not-predicted-interval", "round %d: store advanced by %d, a predictor fed the progress so far says %v (admissible attributions: %v), the loop waits %v (no mock time passed during its requests, so no extension is due); settings min=%v initial=%v max=%v pattern=%s period=%v; trace %v", r, progress, want, wants, d, minI, initI, maxI, pattern, period, trace)
				}
				vev.Fail(t, c20, "C20/loop/delay-with-request-time", "round %d: store advanced by %d, predicted interval %v (admissible attributions: %v), the requests took %v of mock time, the loop then waits %v: %v from poll to poll is outside [interval, max(interval, request) + min(request, interval/2)]; settings min=%v initial=%v max=%v pattern=%s; trace %v", r, progress, want, wants, req, d, req+d, minI, initI, maxI, pattern, trace)
			}
			cands = next
			localThisRound = 0
			if req > 0 {
				slowRounds++
				if req > want {
					overruns++
				}
			}
			if progress == 1 {
				sawOne = true
			} else {
				sawOther = true
			}
			obs = append(obs, d)
			if req > 0 {
				trace = append(trace, fmt.Sprintf("+%d(req %v)->%v", progress, req, d))
			} else {
				trace = append(trace, fmt.Sprintf("+%d->%v", progress, d))
			}
			wait = d
			select {
			case proceed <- struct{}{}:
			case <-ctx.Done():
				t.Fatalf("HARNESS: loop did not resume")
			}
		}
		// cadence under steady production inside [min, max]
		if pattern == "steady" && period > minI && period < maxI && len(obs) >= 40 && slowRounds == 0 {
			tail := obs[len(obs)*2/3:]
			var sum time.Duration
			for _, d := range tail {
				sum += d
			}
			mean := sum / time.Duration(len(tail))
			if mean < period/2 || mean > 2*period {
				vev.Fail(t, c20, "C20/loop/cadence-does-not-settle", "steady production every %v: mean wait over the last third of %d rounds is %v (min=%v max=%v)", period, len(obs), mean, minI, maxI)
			}
			vev.Label(c20, "cadence-checked")
		}
		vev.Case(c20, vev.Digest("loop", pattern, period, minI, initI, maxI, rounds, nPeers), sawOne && sawOther, "closed-loop", "pattern:"+pattern, fmt.Sprintf("progress-1-and-other:%v", sawOne && sawOther), fmt.Sprintf("slow-round:%v", slowRounds > 0), fmt.Sprintf("round-longer-than-interval:%v", overruns > 0), fmt.Sprintf("local-certificate-during-request:%v", localPuts > 0))
		vev.Sample(c20, func() any {
			tr := trace
			if len(tr) > 30 {
				tr = tr[:30]
			}
			return map[string]any{"kind": "closed-loop", "pattern": pattern, "period": period.String(), "min": minI.String(), "initial": initI.String(), "max": maxI.String(), "rounds": rounds, "first_rounds(progress->wait)": tr}
		})
	})
}

var _ = gpbft.INITIAL_PHASE
