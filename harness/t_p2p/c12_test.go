package t_p2p

import (
	"bytes"
	"context"
	"fmt"
	"math/big"
	"os"
	"path/filepath"
	"sort"
	"sync"
	"testing"
	"time"

	f3 "github.com/filecoin-project/go-f3"
	"github.com/filecoin-project/go-f3/gpbft"
	"github.com/filecoin-project/go-f3/internal/clock"
	"github.com/filecoin-project/go-f3/internal/psutil"
	"github.com/filecoin-project/go-f3/manifest"
	"github.com/filecoin-project/go-f3/verifharness/vcrypto"
	"github.com/filecoin-project/go-f3/verifharness/vds"
	"github.com/filecoin-project/go-f3/verifharness/vec"
	"github.com/filecoin-project/go-f3/verifharness/vev"
	"github.com/filecoin-project/go-f3/verifharness/vgen"
	pubsub "github.com/libp2p/go-libp2p-pubsub"
	pubsub_pb "github.com/libp2p/go-libp2p-pubsub/pb"
	"github.com/libp2p/go-libp2p/core/peer"
	"pgregory.net/rapid"
)

const c12 = "C12"
const c12rule = "(1) filter level: generated sequences of broadcast requests over a small slot space (instances 1..3 x rounds {0,1,5,6,7,13} x phases QUALITY/PREPARE/COMMIT x 2 senders x 2 signatures) interleaved with receives from other peers and restarts, a restart being a new filter re-armed by replaying the accepted log in file order or in a permuted order; " +
	"(2) node level: a real F3 node (real WAL directory, real certstore, own gossipsub over an in-process libp2p host, model EC, mock clock) driven through the public F3.Broadcast with possibly conflicting validly signed messages, rebroadcast requests, graceful restarts (Stop/New/Start on the same datastore and disk path) and abrupt restarts (node abandoned without Stop, new node on the same datastore and path, optionally with another EC head, optionally with a strict prefix of a record left at the end of the newest WAL file: the process died inside an append). A pubsub RawTracer on the node's own PubSub records every message the node hands to the network at the moment of publication. " +
	"Invariants over the whole history: per (instance, sender, round, step) at most one distinct signature; no message for an instance older than one already broadcast; at publication time the message is decodable from the WAL directory by a fresh reader. Non-trivial = history with a conflicting request after a restart, or a request for an older instance, or a rebroadcast after a restart; distinct by digest of the trace"

type slot struct {
	Instance uint64
	Sender   gpbft.ActorID
	Round    uint64
	Phase    gpbft.Phase
}

// TestC12Filter: the filter with restarts re-armed from the accepted log.
func TestC12Filter(t *testing.T) {
	rapid.Check(t, func(t *rapid.T) {
		// the filter is cheap: many sequences per rapid case
		for rep := 0; rep < 40; rep++ {
			filterSequence(t)
		}
	})
}

func filterSequence(t *rapid.T) {
	{
		f := f3.VerifNewEquivocationFilter("local")
		var log []*gpbft.GMessage // accepted messages = WAL content
		accepted := map[slot][]byte{}
		var maxInst uint64
		haveMax := false
		restarts, conflictsAfterRestart, olderRequests := 0, 0, 0
		var trace []string
		steps := rapid.IntRange(1, 14).Draw(t, "steps")
		mk := func() *gpbft.GMessage {
			return &gpbft.GMessage{
				Sender:    gpbft.ActorID(rapid.IntRange(1, 2).Draw(t, "sender")),
				Vote:      gpbft.Payload{Instance: uint64(rapid.IntRange(1, 3).Draw(t, "instance")), Round: uint64(rapid.SampledFrom([]int{0, 0, 1, 1, 5, 6, 7, 13}).Draw(t, "round")), Phase: gpbft.Phase(rapid.SampledFrom([]int{1, 3, 4}).Draw(t, "phase")), Value: &gpbft.ECChain{}},
				Signature: []byte{byte(rapid.IntRange(0, 1).Draw(t, "sig"))},
			}
		}
		for s := 0; s < steps; s++ {
			switch rapid.SampledFrom([]string{"broadcast", "broadcast", "broadcast", "receive", "restart"}).Draw(t, "action") {
			case "broadcast":
				m := mk()
				if len(log) > 0 && rapid.IntRange(0, 2).Draw(t, "conflictwithlogged") == 0 {
					// a request for a slot that is already on the wire, signed differently
					prev := log[rapid.IntRange(0, len(log)-1).Draw(t, "loggedidx")]
					m = &gpbft.GMessage{Sender: prev.Sender, Vote: prev.Vote, Signature: []byte{prev.Signature[0] ^ 1}}
				}
				k := slot{m.Vote.Instance, m.Sender, m.Vote.Round, m.Vote.Phase}
				if haveMax && m.Vote.Instance < maxInst {
					olderRequests++
				}
				if prev, ok := accepted[k]; ok && !bytes.Equal(prev, m.Signature) && restarts > 0 {
					conflictsAfterRestart++
				}
				ok := f.ProcessBroadcast(m)
				trace = append(trace, fmt.Sprintf("b(i%d s%d r%d p%d sig%d)=%v", m.Vote.Instance, m.Sender, m.Vote.Round, m.Vote.Phase, m.Signature[0], ok))
				if !ok {
					continue
				}
				if haveMax && m.Vote.Instance < maxInst {
					vev.Fail(t, c12, "C12/filter/past-instance-allowed", "broadcast for instance %d allowed after instance %d; trace %v", m.Vote.Instance, maxInst, trace)
				}
				if prev, dup := accepted[k]; dup && !bytes.Equal(prev, m.Signature) {
					vev.Fail(t, c12, "C12/filter/self-equivocation-allowed", "two different signatures allowed for slot %+v; trace %v", k, trace)
				}
				accepted[k] = m.Signature
				if !haveMax || m.Vote.Instance > maxInst {
					maxInst, haveMax = m.Vote.Instance, true
				}
				log = append(log, m)
			case "receive":
				// messages heard from the network: either from other identities (sender 3, which
				// this node never signs for) or echoes of what this node itself published; a
				// different peer using one of this node's identities is excluded by the statement
				m := mk()
				if len(log) > 0 && rapid.Bool().Draw(t, "echo") {
					m = log[rapid.IntRange(0, len(log)-1).Draw(t, "echoidx")]
					f.ProcessReceive("local", m)
				} else {
					m.Sender = 3
					f.ProcessReceive("other-peer", m)
				}
				trace = append(trace, fmt.Sprintf("recv(i%d s%d r%d p%d sig%d)", m.Vote.Instance, m.Sender, m.Vote.Round, m.Vote.Phase, m.Signature[0]))
			case "restart":
				f = f3.VerifNewEquivocationFilter("local")
				order := make([]int, len(log))
				for i := range order {
					order[i] = i
				}
				if rapid.Bool().Draw(t, "permuted") {
					for i := len(order) - 1; i > 0; i-- {
						j := rapid.IntRange(0, i).Draw(t, "perm")
						order[i], order[j] = order[j], order[i]
					}
				}
				for _, i := range order {
					f.ProcessBroadcast(log[i])
				}
				restarts++
				trace = append(trace, "restart")
			}
		}
		vev.Case(c12, vev.Digest("filter", fmt.Sprint(trace)), conflictsAfterRestart > 0 || olderRequests > 0, "filter-sequence", fmt.Sprintf("filter-restart:%v", restarts > 0), fmt.Sprintf("filter-conflict-after-restart:%v", conflictsAfterRestart > 0), fmt.Sprintf("filter-older-instance-request:%v", olderRequests > 0))
	}
}

// ---- node level -------------------------------------------------------------

type published struct {
	key slot
	sig []byte
	id  string
}

// recorder collects what observer peers receive from the node and, per message
// id, the WAL content a fresh reader saw at the moment the node called Publish.
type recorder struct {
	mu       sync.Mutex
	topic    string
	walDir   string
	pubs     []published
	walAt    map[string]map[string]bool // message id -> set of slot|sig in the WAL at publish time
	attempts int
	errs     []string
	// seq: message id -> position of its first Publish call (the trace event is emitted
	// synchronously inside Publish, on the caller's goroutine). The observer's arrival order
	// is not the publication order: its validation pipeline is concurrent.
	seq map[string]int
}

func slotSig(k slot, sig []byte) string { return fmt.Sprintf("%+v|%x", k, sig) }

// Trace implements pubsub.EventTracer on the node's own PubSub: PUBLISH_MESSAGE
// is emitted synchronously at the top of Topic.Publish.
func (r *recorder) Trace(evt *pubsub_pb.TraceEvent) {
	if evt.GetType() != pubsub_pb.TraceEvent_PUBLISH_MESSAGE || evt.GetPublishMessage().GetTopic() != r.topic {
		return
	}
	id := string(evt.GetPublishMessage().GetMessageID())
	set := map[string]bool{}
	if msgs, err := f3.VerifReadWAL(r.walDir); err == nil {
		for _, w := range msgs {
			set[slotSig(slot{w.Vote.Instance, w.Sender, w.Vote.Round, w.Vote.Phase}, w.Signature)] = true
		}
	}
	r.mu.Lock()
	defer r.mu.Unlock()
	r.attempts++
	if _, ok := r.walAt[id]; !ok {
		r.walAt[id] = set
	}
	if r.seq == nil {
		r.seq = map[string]int{}
	}
	if _, ok := r.seq[id]; !ok {
		r.seq[id] = len(r.seq)
	}
}

func (r *recorder) received(msg *pubsub.Message) {
	var pm gpbft.PartialGMessage
	if err := pm.UnmarshalCBOR(bytes.NewReader(msg.Data)); err != nil {
		r.mu.Lock()
		r.errs = append(r.errs, "HARNESS: undecodable published message: "+err.Error())
		r.mu.Unlock()
		return
	}
	k := slot{pm.Vote.Instance, pm.Sender, pm.Vote.Round, pm.Vote.Phase}
	id := psutil.GPBFTMessageIdFn(msg.Message)
	r.mu.Lock()
	defer r.mu.Unlock()
	r.pubs = append(r.pubs, published{key: k, sig: append([]byte(nil), pm.Signature...), id: id})
	if snap, ok := r.walAt[id]; ok && !snap[slotSig(k, pm.Signature)] {
		r.errs = append(r.errs, fmt.Sprintf("C12/node/published-before-logged|message for slot %+v was handed to the network although a fresh reader did not find it in the WAL directory when Publish was called", k))
	}
}

type node struct {
	f3     *f3.F3
	cancel context.CancelFunc
	close  func()
}

func TestC12Node(t *testing.T) {
	root := os.Getenv("VERIF_TMP")
	if root == "" {
		root = os.TempDir()
	}
	rapid.Check(t, func(t *rapid.T) {
		dir, err := os.MkdirTemp(root, "verif-c12-")
		if err != nil {
			t.Fatalf("HARNESS: %v", err)
		}
		defer os.RemoveAll(dir)
		m := manifest.LocalDevnetManifest()
		m.NetworkName = "vnet"
		m.InitialInstance = 0
		m.EC.Finality = 0
		m.BootstrapEpoch = 2
		m.CommitteeLookback = 3
		m.PubSub.CompressionEnabled = false
		m.EC.Period = 30 * time.Second
		// EC model: a short chain beyond the bootstrap epoch, three participants
		table := gpbft.PowerEntries{}
		// (sixteen members, so that a burst of maximum-size QUALITY votes can fill a WAL file)
		for id := uint64(1); id <= 16; id++ {
			table = append(table, gpbft.PowerEntry{ID: gpbft.ActorID(id), Power: gpbft.StoragePower{Int: big.NewInt(10)}, PubKey: vcrypto.PubKey(id)})
		}
		ecm := vec.New()
		var prev *vec.TS
		for e := int64(0); e < 12; e++ {
			ts := &vec.TS{E: e, K: vgen.DetBytes(8, "c12ts", e), B: vgen.DetBytes(8, "c12b", e), T: time.Unix(1_700_000_000, 0).Add(time.Duration(e) * m.EC.Period), Parent: prev, Table: table}
			ecm.Add(ts)
			prev = ts
		}
		ecm.Head = prev
		ds := vds.New()
		walDir := filepath.Join(dir, "wal", "vnet")
		rec := &recorder{topic: manifest.PubSubTopicFromNetworkName(m.NetworkName), walDir: walDir, walAt: map[string]map[string]bool{}}
		var nodes []*node
		start := func(how string) *node {
			ctx, cancel := context.WithCancel(context.Background())
			ctx, clk := clock.WithMockClock(ctx)
			clk.Set(prev.T.Add(10 * m.EC.Period))
			mn, hs := newNetUnconnected(t, 2)
			ps, err := pubsub.NewGossipSub(ctx, hs[0], pubsub.WithEventTracer(rec))
			if err != nil {
				t.Fatalf("HARNESS: gossipsub: %v", err)
			}
			// observer peer: sees exactly what the node sends over the network
			ops, err := pubsub.NewGossipSub(ctx, hs[1])
			if err != nil {
				t.Fatalf("HARNESS: observer gossipsub: %v", err)
			}
			_ = ops.RegisterTopicValidator(rec.topic, func(context.Context, peer.ID, *pubsub.Message) pubsub.ValidationResult {
				return pubsub.ValidationAccept
			})
			otopic, err := ops.Join(rec.topic, pubsub.WithTopicMessageIdFn(psutil.GPBFTMessageIdFn))
			if err != nil {
				t.Fatalf("HARNESS: observer join: %v", err)
			}
			osub, err := otopic.Subscribe()
			if err != nil {
				t.Fatalf("HARNESS: observer subscribe: %v", err)
			}
			if err := mn.ConnectAllButSelf(); err != nil {
				t.Fatalf("HARNESS: connect: %v", err)
			}
			go func() {
				for {
					msg, err := osub.Next(ctx)
					if err != nil {
						return
					}
					rec.received(msg)
				}
			}()
			n, err := f3.New(ctx, m, ds, hs[0], ps, vcrypto.Scheme{}, ecm, dir)
			if err != nil {
				t.Fatalf("HARNESS: f3.New: %v", err)
			}
			if err := n.Start(ctx); err != nil {
				vev.Fail(t, c12, "C12/node/start-failed", "%s: Start failed: %v", how, err)
			}
			if !n.IsRunning() {
				t.Fatalf("HARNESS: node not running after Start (%s)", how)
			}
			// the node must know the observer's subscription before anything is published
			deadline := time.Now().Add(45 * time.Second)
			for {
				found := false
				for _, p := range ps.ListPeers(rec.topic) {
					if p == hs[1].ID() {
						found = true
					}
				}
				if found {
					break
				}
				if time.Now().After(deadline) {
					t.Fatalf("HARNESS: observer never became a topic peer of the node (inconclusive)")
				}
				time.Sleep(2 * time.Millisecond)
			}
			nd := &node{f3: n, cancel: cancel, close: func() { _ = mn.Close() }}
			nodes = append(nodes, nd)
			return nd
		}
		defer func() {
			for _, nd := range nodes {
				sctx, c := context.WithTimeout(context.Background(), 10*time.Second)
				_ = nd.f3.Stop(sctx)
				c()
				nd.cancel()
				nd.close()
			}
		}()
		cur := start("first start")
		base := &gpbft.TipSet{Epoch: 2, Key: vgen.DetBytes(8, "c12ts", int64(2)), PowerTable: vgen.DetCid("x")}
		values := []*gpbft.ECChain{
			vgen.Chain(base, &gpbft.TipSet{Epoch: 3, Key: []byte("value-a"), PowerTable: vgen.DetCid("va")}),
			vgen.Chain(base, &gpbft.TipSet{Epoch: 3, Key: []byte("value-b"), PowerTable: vgen.DetCid("vb")}),
		}
		var trace []string
		restarts, conflictAfterRestart, olderAfter, rebroadcastAfterRestart, tornTails, bursts := 0, 0, 0, 0, 0, 0
		requested := map[slot]map[string]bool{}
		var history []struct {
			sender uint64
			p      gpbft.Payload
		}
		var maxRequested uint64
		steps := rapid.IntRange(2, 12).Draw(t, "steps")
		for s := 0; s < steps; s++ {
			action := rapid.SampledFrom([]string{"broadcast", "broadcast", "broadcast", "broadcast", "rebroadcast", "restart", "crash-restart", "torn-crash-restart", "big-burst"}).Draw(t, "action")
			switch action {
			case "big-burst":
				// QUALITY votes of many identities for one maximum-size chain (128 tipsets with
				// 760-byte keys, about 100 KiB per WAL record): more than 1 MiB goes into one log
				// file, which therefore rolls over
				if bursts >= 1 {
					continue
				}
				bursts++
				inst := maxRequested
				big := &gpbft.ECChain{TipSets: []*gpbft.TipSet{base}}
				for i := 1; i < gpbft.ChainMaxLen; i++ {
					big.TipSets = append(big.TipSets, &gpbft.TipSet{Epoch: base.Epoch + int64(i), Key: vgen.DetBytes(gpbft.TipsetKeyMaxLen, "bigkey", s, i), PowerTable: vgen.DetCid("bigpt", i)})
				}
				for sender := uint64(3); sender <= 16; sender++ {
					p := gpbft.Payload{Instance: inst, Round: 0, Phase: gpbft.QUALITY_PHASE, Value: big, SupplementalData: gpbft.SupplementalData{PowerTable: vgen.DetCid("c12supp")}}
					sb := &gpbft.SignatureBuilder{NetworkName: m.NetworkName, ParticipantID: gpbft.ActorID(sender), Payload: p, PubKey: vcrypto.PubKey(sender), PayloadToSign: p.MarshalForSigning(m.NetworkName)}
					sig := vcrypto.RawSign(sb.PubKey, sb.PayloadToSign)
					k := slot{p.Instance, gpbft.ActorID(sender), p.Round, p.Phase}
					if requested[k] == nil {
						requested[k] = map[string]bool{}
					}
					requested[k][string(sig)] = true
					history = append(history, struct {
						sender uint64
						p      gpbft.Payload
					}{sender, p})
					cur.f3.Broadcast(context.Background(), sb, sig, nil)
					time.Sleep(5 * time.Millisecond)
				}
				trace = append(trace, fmt.Sprintf("big-burst(i%d, 14 senders)", inst))
			case "torn-crash-restart":
				// the process dies in the middle of a WAL append: a strict prefix of a record is
				// left at the end of the newest log file; the old node is abandoned
				if names, _ := filepath.Glob(filepath.Join(walDir, "*.wal.cbor")); len(names) > 0 {
					sort.Strings(names)
					newest := names[len(names)-1]
					if content, err := os.ReadFile(newest); err == nil && len(content) > 16 {
						k := rapid.IntRange(1, 12).Draw(t, "tornbytes")
						fh, err := os.OpenFile(newest, os.O_WRONLY|os.O_APPEND, 0o666)
						if err != nil {
							t.Fatalf("HARNESS: %v", err)
						}
						_, _ = fh.Write(content[:k])
						_ = fh.Close()
						tornTails++
					}
				}
				cur = start("crash restart after a torn WAL append")
				restarts++
				trace = append(trace, "torn-crash-restart")
			case "broadcast":
				sender := uint64(rapid.IntRange(1, 2).Draw(t, "sender"))
				p := gpbft.Payload{
					Instance:         uint64(rapid.IntRange(0, 2).Draw(t, "instance")),
					Round:            uint64(rapid.SampledFrom([]int{0, 0, 1, 1, 6, 7, 13}).Draw(t, "round")),
					Phase:            gpbft.Phase(rapid.SampledFrom([]int{1, 3, 4, 4}).Draw(t, "phase")),
					Value:            values[rapid.IntRange(0, 1).Draw(t, "value")],
					SupplementalData: gpbft.SupplementalData{PowerTable: vgen.DetCid("c12supp")},
				}
				// shapes that need no justification, so that the node's own validator lets them out
				switch p.Phase {
				case gpbft.QUALITY_PHASE, gpbft.PREPARE_PHASE:
					p.Round = 0
				case gpbft.COMMIT_PHASE:
					p.Value = &gpbft.ECChain{}
					// two COMMIT-bottom votes of one slot would be byte-identical: vary the supplemental
					// commitments instead (still validly signed, still conflicting)
					p.SupplementalData.Commitments[0] = byte(rapid.IntRange(0, 1).Draw(t, "commitvariant"))
				}
				// after a restart, half of the requests conflict with an earlier request of the same
				// slot (same instance, sender, round, step; the other value)
				if restarts > 0 && len(history) > 0 && rapid.Bool().Draw(t, "conflictwithearlier") {
					h := history[rapid.IntRange(0, len(history)-1).Draw(t, "earlier")]
					sender, p = h.sender, h.p
					if p.Phase == gpbft.COMMIT_PHASE {
						p.SupplementalData.Commitments[0] ^= 1
					} else if p.Value == values[0] {
						p.Value = values[1]
					} else {
						p.Value = values[0]
					}
				}
				history = append(history, struct {
					sender uint64
					p      gpbft.Payload
				}{sender, p})
				sb := &gpbft.SignatureBuilder{NetworkName: m.NetworkName, ParticipantID: gpbft.ActorID(sender), Payload: p, PubKey: vcrypto.PubKey(sender), PayloadToSign: p.MarshalForSigning(m.NetworkName)}
				sig := vcrypto.RawSign(sb.PubKey, sb.PayloadToSign)
				k := slot{p.Instance, gpbft.ActorID(sender), p.Round, p.Phase}
				if requested[k] == nil {
					requested[k] = map[string]bool{}
				}
				if len(requested[k]) > 0 && !requested[k][string(sig)] && restarts > 0 {
					conflictAfterRestart++
				}
				requested[k][string(sig)] = true
				if p.Instance < maxRequested && restarts > 0 {
					olderAfter++
				}
				if p.Instance > maxRequested {
					maxRequested = p.Instance
				}
				cur.f3.Broadcast(context.Background(), sb, sig, nil)
				trace = append(trace, fmt.Sprintf("broadcast(i%d s%d r%d %s v%d)", p.Instance, sender, p.Round, p.Phase, map[bool]int{true: 0, false: 1}[p.Value == values[0]]))
			case "rebroadcast":
				in := gpbft.Instant{ID: uint64(rapid.IntRange(0, 2).Draw(t, "instance")), Round: uint64(rapid.SampledFrom([]int{0, 0, 1, 6, 7, 13}).Draw(t, "round")), Phase: gpbft.Phase(rapid.SampledFrom([]int{1, 3, 4}).Draw(t, "phase"))}
				if len(history) > 0 && rapid.IntRange(0, 3).Draw(t, "rebroadcastearlier") > 0 {
					// usually the slot of an earlier request (what the rebroadcast timer of a stalled
					// instance asks for)
					h := history[rapid.IntRange(0, len(history)-1).Draw(t, "earlierslot")]
					in = gpbft.Instant{ID: h.p.Instance, Round: h.p.Round, Phase: h.p.Phase}
				}
				_ = cur.f3.VerifRequestRebroadcast(in)
				if restarts > 0 {
					rebroadcastAfterRestart++
				}
				trace = append(trace, fmt.Sprintf("rebroadcast(i%d r%d %s)", in.ID, in.Round, in.Phase))
			case "restart":
				sctx, c := context.WithTimeout(context.Background(), 20*time.Second)
				if err := cur.f3.Stop(sctx); err != nil {
					c()
					vev.Fail(t, c12, "C12/node/stop-failed", "Stop failed: %v", err)
				}
				c()
				cur = start("graceful restart")
				restarts++
				trace = append(trace, "restart")
			case "crash-restart":
				// the old node is abandoned (never stopped); optionally the EC head differs
				if rapid.Bool().Draw(t, "otherhead") {
					nt := &vec.TS{E: ecm.Head.E + 1, K: vgen.DetBytes(8, "c12alt", s), B: []byte("b"), T: ecm.Head.T.Add(m.EC.Period), Parent: ecm.Head, Table: table}
					ecm.Add(nt)
					ecm.SetHead(nt)
				}
				cur = start("crash restart")
				restarts++
				trace = append(trace, "crash-restart")
			}
			// accepted local publications are reported from the pubsub event loop: give it a moment
			time.Sleep(10 * time.Millisecond)
			if s == steps-1 {
				time.Sleep(120 * time.Millisecond)
			}
			// invariants over everything published so far
			rec.mu.Lock()
			seen := map[slot][]byte{}
			var maxPub uint64
			havePub := false
			var failSig, failMsg string
			ordered := append([]published(nil), rec.pubs...)
			sort.SliceStable(ordered, func(a, b int) bool {
				sa, oka := rec.seq[ordered[a].id]
				sb, okb := rec.seq[ordered[b].id]
				if oka && okb {
					return sa < sb
				}
				return oka && !okb
			})
			for i, p := range ordered {
				if prev, ok := seen[p.key]; ok && !bytes.Equal(prev, p.sig) {
					failSig, failMsg = "C12/node/self-equivocation-on-the-wire", fmt.Sprintf("two differently signed messages for slot %+v were handed to the network (publication #%d)", p.key, i)
				}
				seen[p.key] = p.sig
				if havePub && p.key.Instance < maxPub {
					failSig, failMsg = "C12/node/older-instance-on-the-wire", fmt.Sprintf("a message for instance %d was handed to the network after one for instance %d (publication #%d)", p.key.Instance, maxPub, i)
				}
				if !havePub || p.key.Instance > maxPub {
					maxPub, havePub = p.key.Instance, true
				}
			}
			errs := append([]string(nil), rec.errs...)
			npub := len(rec.pubs)
			rec.mu.Unlock()
			for _, e := range errs {
				if len(e) > 8 && e[:8] == "HARNESS:" {
					t.Fatalf("%s", e)
				}
				for i := 0; i < len(e); i++ {
					if e[i] == '|' {
						vev.Fail(t, c12, e[:i], "%s; trace %v", e[i+1:], trace)
					}
				}
			}
			if failSig != "" {
				vev.Fail(t, c12, failSig, "%s; trace %v", failMsg, trace)
			}
			_ = npub
		}
		rec.mu.Lock()
		npub := len(rec.pubs)
		rec.mu.Unlock()
		nt := conflictAfterRestart > 0 || olderAfter > 0 || rebroadcastAfterRestart > 0
		vev.Case(c12, vev.Digest("node", fmt.Sprint(trace)), nt, "node-history", fmt.Sprintf("node-restarts>0:%v", restarts > 0), fmt.Sprintf("node-conflict-after-restart:%v", conflictAfterRestart > 0), fmt.Sprintf("node-older-instance-after-restart:%v", olderAfter > 0), fmt.Sprintf("node-published>0:%v", npub > 0), fmt.Sprintf("node-torn-wal-tail:%v", tornTails > 0), fmt.Sprintf("node-wal-file-over-1MiB:%v", bursts > 0))
		vev.Sample(c12, func() any { return map[string]any{"kind": "node-history", "trace": trace, "publications": npub} })
	})
}
