package t_sim

import (
	"context"
	"fmt"
	"math/big"
	"testing"
	"time"

	"github.com/filecoin-project/go-bitfield"
	"github.com/filecoin-project/go-f3/gpbft"
	"github.com/filecoin-project/go-f3/sim"
	"github.com/filecoin-project/go-f3/sim/adversary"
	"github.com/filecoin-project/go-f3/sim/latency"
	"github.com/filecoin-project/go-f3/verifharness/vev"
	"github.com/filecoin-project/go-f3/verifharness/vref"
	"pgregory.net/rapid"
)

const c19 = "C19"

func TestMain(m *testing.M) {
	vev.Rule(c19, "(a) generated sim.Simulation runs (2..6 honest participants with generated powers, 1..2 instances) in which a harness adversary hands the simulator a decision through its host's ReceiveDecision (or, for an honest participant, through the exported ECInstance.NotifyDecision): valid control, under-powered signer subset (below 2/3 by scaled and by raw power), empty signer set, bad aggregate, wrong phase, wrong round (signed as such, or stamped onto a decision whose quorum signed the regular DECIDE vote), bottom value, wrong base, non-existing instance, and a fully signed different value for an honest participant; Run must return an error iff the injected decision is invalid or makes honest participants disagree. Non-trivial = any injected decision other than the valid control; distinct by digest of (powers, kind, signer set)")
	vev.Main(m)
}

type injector struct {
	adversary.Absent
	id       gpbft.ActorID
	host     adversary.Host
	kind     string
	drop     []int // honest indices left out of the signer set for "underpowered"
	sm       **sim.Simulation
	victim   gpbft.ActorID
	injected bool
	note     string
	skip     bool
	late     bool
}

func (in *injector) AllowMessage(gpbft.ActorID, gpbft.ActorID, gpbft.GMessage) bool { return true }

func (in *injector) StartInstanceAt(instance uint64, _ time.Time) error {
	if in.kind == "other-value-for-honest" {
		return nil // injected later, once the victim has decided
	}
	if in.late {
		return nil // injected from ReceiveMessage once the network is past the target instance
	}
	if in.injected {
		return nil
	}
	in.inject(instance, in.id)
	return nil
}

func (in *injector) ReceiveMessage(_ context.Context, vm gpbft.ValidatedMessage) error {
	if in.late && !in.injected && !in.skip {
		// the network has moved on: report a decision for the instance before the one in progress
		if mi := vm.Message().Vote.Instance; mi >= 1 {
			in.inject(mi-1, in.id)
		}
		return nil
	}
	if in.kind == "other-value-for-honest" && !in.injected {
		inst := (*in.sm).GetInstance(0)
		// only while the instance is still open: some other honest participant has not
		// decided yet, so the run loop has not evaluated the instance
		if inst != nil && inst.GetDecision(in.victim) != nil && !inst.HasCompleted(in.id) {
			in.inject(0, in.victim)
		}
	}
	return nil
}

func (in *injector) inject(instance uint64, as gpbft.ActorID) {
	ctx := context.Background()
	supp, _, err := in.host.GetProposal(ctx, instance)
	if err != nil {
		in.note = "no proposal: " + err.Error()
		in.skip = true
		return
	}
	com, err := in.host.GetCommittee(ctx, instance)
	if err != nil {
		in.note = "no committee: " + err.Error()
		in.skip = true
		return
	}
	eci := (*in.sm).GetInstance(instance)
	base := eci.BaseChain.Head()
	value := &gpbft.ECChain{TipSets: []*gpbft.TipSet{base, {Epoch: base.Epoch + 1, Key: []byte("injected-tipset"), PowerTable: base.PowerTable}}}
	payload := gpbft.Payload{Instance: instance, Round: 0, Phase: gpbft.DECIDE_PHASE, SupplementalData: *supp, Value: value}
	// signer set: everybody with power by default
	var signers []int
	for i := range com.PowerTable.Entries {
		if com.PowerTable.ScaledPower[i] > 0 {
			signers = append(signers, i)
		}
	}
	badAgg := false
	switch in.kind {
	case "valid", "other-value-for-honest", "valid-then-replayed-aggregate":
	case "underpowered":
		keep := map[int]bool{}
		for _, i := range signers {
			keep[i] = true
		}
		for _, d := range in.drop {
			if d < len(com.PowerTable.Entries) {
				delete(keep, d)
			}
		}
		signers = signers[:0]
		for i := range com.PowerTable.Entries {
			if keep[i] {
				signers = append(signers, i)
			}
		}
		// the verdict must not depend on which measure a correct simulator uses
		var sc int64
		raw, rawTotal := new(big.Int), new(big.Int)
		for i, e := range com.PowerTable.Entries {
			rawTotal.Add(rawTotal, e.Power.Int)
			if keep[i] {
				sc += com.PowerTable.ScaledPower[i]
				raw.Add(raw, e.Power.Int)
			}
		}
		underScaled := !vref.StrongQuorum(sc, com.PowerTable.ScaledTotal)
		underRaw := new(big.Int).Mul(raw, big.NewInt(3)).Cmp(new(big.Int).Mul(rawTotal, big.NewInt(2))) < 0
		if !(underScaled && underRaw) {
			in.skip = true
			in.note = "signer subset is not under-powered by both measures"
			return
		}
	case "empty-signers":
		signers = nil
	case "bad-aggregate":
		badAgg = true
	case "wrong-phase":
		payload.Phase = gpbft.COMMIT_PHASE
	case "wrong-round":
		payload.Round = 1
	case "bottom":
		payload.Value = &gpbft.ECChain{}
	case "wrong-base":
		payload.Value = &gpbft.ECChain{TipSets: []*gpbft.TipSet{{Epoch: base.Epoch, Key: []byte("another-base"), PowerTable: base.PowerTable}, value.TipSets[1]}}
	case "non-existing-instance":
		payload.Instance = instance + 57
	}
	toSign := payload.MarshalForSigning(in.host.NetworkName())
	var sigs [][]byte
	set := make([]uint64, 0, len(signers))
	for _, i := range signers {
		sig, err := in.host.Sign(ctx, com.PowerTable.Entries[i].PubKey, toSign)
		if err != nil {
			in.skip = true
			in.note = "cannot sign: " + err.Error()
			return
		}
		sigs = append(sigs, sig)
		set = append(set, uint64(i))
	}
	agg, err := com.AggregateVerifier.Aggregate(signers, sigs)
	if err != nil {
		in.skip = true
		in.note = "cannot aggregate: " + err.Error()
		return
	}
	if badAgg {
		agg = append([]byte(nil), agg...)
		agg[0] ^= 0xff
	}
	j := &gpbft.Justification{Vote: payload, Signers: bitfield.NewFromSet(set), Signature: agg}
	switch in.kind {
	case "stamped-wrong-phase":
		// a full quorum signed the regular DECIDE / round 0 vote; the decision handed over
		// claims another step (no node would accept it as a finality proof)
		j.Vote.Phase = gpbft.COMMIT_PHASE
	case "stamped-wrong-round":
		j.Vote.Round = uint64(1 + len(signers))
	}
	if in.kind == "valid-then-replayed-aggregate" {
		// first a legitimate decision, then the same signers and aggregate on another value
		_, _ = in.host.ReceiveDecision(ctx, j)
		forged := payload
		forged.Value = &gpbft.ECChain{TipSets: []*gpbft.TipSet{base, {Epoch: base.Epoch + 2, Key: []byte("never-signed-tipset"), PowerTable: base.PowerTable}}}
		j = &gpbft.Justification{Vote: forged, Signers: bitfield.NewFromSet(set), Signature: agg}
	}
	in.injected = true
	in.note = fmt.Sprintf("signers %v of %d", signers, len(com.PowerTable.Entries))
	if as == in.id {
		_, _ = in.host.ReceiveDecision(ctx, j)
	} else {
		eci.NotifyDecision(as, j)
	}
}

func TestC19SimulatorOracle(t *testing.T) {
	rapid.Check(t, func(t *rapid.T) {
		n := rapid.IntRange(2, 6).Draw(t, "honest")
		powers := make([]int64, n)
		for i := range powers {
			powers[i] = int64(rapid.IntRange(1, 20).Draw(t, "power"))
		}
		kind := rapid.SampledFrom([]string{"valid", "underpowered", "underpowered", "empty-signers", "bad-aggregate", "valid-then-replayed-aggregate", "wrong-phase", "wrong-round", "stamped-wrong-phase", "stamped-wrong-round", "bottom", "wrong-base", "non-existing-instance", "other-value-for-honest", "none"}).Draw(t, "kind")
		var drop []int
		for i := 0; i < n+1; i++ {
			if rapid.Bool().Draw(t, "drop") {
				drop = append(drop, i)
			}
		}
		instances := uint64(rapid.IntRange(1, 3).Draw(t, "instances"))
		// a third of the invalid decisions are reported late: for the previous instance, once the
		// run has moved on to the next one
		late := instances >= 2 && kind != "valid" && kind != "none" && kind != "other-value-for-honest" && kind != "valid-then-replayed-aggregate" && rapid.IntRange(0, 2).Draw(t, "late") == 0
		base := &gpbft.ECChain{TipSets: []*gpbft.TipSet{{Epoch: 0, Key: []byte("sim-genesis"), PowerTable: gpbft.MakeCid([]byte("pt"))}}}
		var sm *sim.Simulation
		var inj *injector
		opts := []sim.Option{
			sim.WithLatencyModeler(func() (latency.Model, error) { return latency.None, nil }),
			sim.WithECEpochDuration(30 * time.Second),
			sim.WitECStabilisationDelay(3 * time.Second),
			sim.WithGpbftOptions(gpbft.WithDelta(200*time.Millisecond), gpbft.WithDeltaBackOffExponent(1.3), gpbft.WithRebroadcastBackoff(1.3, 0, time.Second, 5*time.Second)),
			sim.WithBaseChain(base),
		}
		ecg := sim.NewUniformECChainGenerator(uint64(rapid.IntRange(1, 1000).Draw(t, "ecseed")), 1, 4)
		for i := 0; i < n; i++ {
			opts = append(opts, sim.AddHonestParticipants(1, ecg, sim.UniformStoragePower(gpbft.NewStoragePower(powers[i]))))
		}
		if kind != "none" {
			opts = append(opts, sim.WithAdversary(func(id gpbft.ActorID, host adversary.Host) *adversary.Adversary {
				inj = &injector{id: id, host: host, kind: kind, drop: drop, sm: &sm, victim: gpbft.ActorID(rapid.IntRange(0, n-1).Draw(t, "victim")), late: late}
				return &adversary.Adversary{Receiver: inj, Power: gpbft.NewStoragePower(1), ID: id}
			}))
		}
		var err error
		sm, err = sim.NewSimulation(opts...)
		if err != nil {
			t.Fatalf("HARNESS: NewSimulation: %v", err)
		}
		runErr := sm.Run(instances, 10)
		injected := inj != nil && inj.injected && !inj.skip
		wantErr := injected && kind != "valid"
		note := ""
		if inj != nil {
			note = inj.note
		}
		switch {
		case inj != nil && (inj.skip || !inj.injected):
			vev.Case(c19, vev.Digest("sim-skip", fmt.Sprint(powers), kind, fmt.Sprint(drop)), false, "sim:"+kind, "sim-excluded-ambiguous-or-not-injected")
			return
		case wantErr && runErr == nil:
			vev.Fail(t, c19, "C19/sim/invalid-decision-not-reported", "Run returned nil although a %q decision was handed to the simulator (%s; honest powers %v, adversary power 1)", kind, note, powers)
		case !wantErr && runErr != nil:
			vev.Fail(t, c19, "C19/sim/clean-run-failed", "Run failed although nothing invalid was injected (kind %q, %s): %v", kind, note, runErr)
		}
		vev.Case(c19, vev.Digest("sim", fmt.Sprint(powers), kind, fmt.Sprint(drop), instances, late), kind != "valid" && kind != "none", "sim:"+kind, fmt.Sprintf("sim-run-error:%v", runErr != nil), fmt.Sprintf("sim-reported-for-a-past-instance:%v", late))
		vev.Sample(c19, func() any {
			return map[string]any{"kind": "simulation", "honest_powers": powers, "injected": kind, "reported_for_past_instance": late, "detail": note, "instances": instances, "run_error": fmt.Sprint(runErr)}
		})
	})
}
