// Package vds is a deterministic, fault-injecting in-memory datastore.
//
// Every Put/Delete is one "write". With FailFrom = k the k-th write (0-based)
// and every later one fail without being applied: the surviving map is the
// state a process that died between write k-1 and write k leaves behind.
// Query results come back in sorted key order permuted by Perm (if set), so a
// harness can reach every deletion order.
package vds

import (
	"context"
	"errors"
	"sort"
	"sync"

	ds "github.com/ipfs/go-datastore"
	"github.com/ipfs/go-datastore/query"
)

var ErrCrashed = errors.New("vds: process crashed (injected)")

type Op struct {
	Kind string // "put" | "delete"
	Key  string
}

type Store struct {
	mu       sync.Mutex
	m        map[string][]byte
	Writes   int  // number of writes attempted so far
	FailFrom int  // -1: never fail
	Log      []Op // applied writes
	// Overwritten lists the keys whose stored bytes were replaced by different bytes.
	Overwritten []string
	// Perm, if non-nil, maps the sorted position of a query result to its
	// position in the returned order (called with n = number of results).
	Perm func(n int) []int
}

var _ ds.Batching = (*Store)(nil)

func New() *Store { return &Store{m: map[string][]byte{}, FailFrom: -1} }

func (s *Store) Snapshot() map[string][]byte {
	s.mu.Lock()
	defer s.mu.Unlock()
	out := make(map[string][]byte, len(s.m))
	for k, v := range s.m {
		out[k] = append([]byte(nil), v...)
	}
	return out
}

func FromSnapshot(snap map[string][]byte) *Store {
	s := New()
	for k, v := range snap {
		s.m[k] = append([]byte(nil), v...)
	}
	return s
}

func (s *Store) Keys() []string {
	s.mu.Lock()
	defer s.mu.Unlock()
	keys := make([]string, 0, len(s.m))
	for k := range s.m {
		keys = append(keys, k)
	}
	sort.Strings(keys)
	return keys
}

func (s *Store) ResetCounters() {
	s.mu.Lock()
	defer s.mu.Unlock()
	s.Writes = 0
	s.Log = nil
}

func (s *Store) write() error {
	n := s.Writes
	s.Writes++
	if s.FailFrom >= 0 && n >= s.FailFrom {
		return ErrCrashed
	}
	return nil
}

func (s *Store) Get(_ context.Context, key ds.Key) ([]byte, error) {
	s.mu.Lock()
	defer s.mu.Unlock()
	v, ok := s.m[key.String()]
	if !ok {
		return nil, ds.ErrNotFound
	}
	return append([]byte(nil), v...), nil
}

func (s *Store) Has(_ context.Context, key ds.Key) (bool, error) {
	s.mu.Lock()
	defer s.mu.Unlock()
	_, ok := s.m[key.String()]
	return ok, nil
}

func (s *Store) GetSize(_ context.Context, key ds.Key) (int, error) {
	s.mu.Lock()
	defer s.mu.Unlock()
	v, ok := s.m[key.String()]
	if !ok {
		return -1, ds.ErrNotFound
	}
	return len(v), nil
}

func (s *Store) Put(_ context.Context, key ds.Key, value []byte) error {
	s.mu.Lock()
	defer s.mu.Unlock()
	if err := s.write(); err != nil {
		return err
	}
	if old, ok := s.m[key.String()]; ok && string(old) != string(value) {
		s.Overwritten = append(s.Overwritten, key.String())
	}
	s.m[key.String()] = append([]byte(nil), value...)
	s.Log = append(s.Log, Op{"put", key.String()})
	return nil
}

func (s *Store) Delete(_ context.Context, key ds.Key) error {
	s.mu.Lock()
	defer s.mu.Unlock()
	if err := s.write(); err != nil {
		return err
	}
	delete(s.m, key.String())
	s.Log = append(s.Log, Op{"delete", key.String()})
	return nil
}

func (s *Store) Sync(context.Context, ds.Key) error { return nil }
func (s *Store) Close() error                       { return nil }

func (s *Store) Query(_ context.Context, q query.Query) (query.Results, error) {
	s.mu.Lock()
	keys := make([]string, 0, len(s.m))
	for k := range s.m {
		keys = append(keys, k)
	}
	sort.Strings(keys)
	entries := make([]query.Entry, 0, len(keys))
	for _, k := range keys {
		e := query.Entry{Key: k, Size: len(s.m[k])}
		if !q.KeysOnly {
			e.Value = append([]byte(nil), s.m[k]...)
		}
		entries = append(entries, e)
	}
	perm := s.Perm
	s.mu.Unlock()
	// apply prefix filter first so that the permutation is over the visible set
	if q.Prefix != "" {
		prefix := ds.NewKey(q.Prefix).String()
		if prefix != "/" {
			var f []query.Entry
			for _, e := range entries {
				if len(e.Key) > len(prefix) && e.Key[:len(prefix)+1] == prefix+"/" {
					f = append(f, e)
				}
			}
			entries = f
		}
	}
	if perm != nil && len(entries) > 1 {
		p := perm(len(entries))
		if len(p) == len(entries) {
			out := make([]query.Entry, len(entries))
			for i, j := range p {
				out[j] = entries[i]
			}
			entries = out
		}
	}
	q2 := q
	q2.Prefix = ""
	return query.NaiveQueryApply(q2, query.ResultsWithEntries(q, entries)), nil
}

func (s *Store) Batch(context.Context) (ds.Batch, error) { return ds.NewBasicBatch(s), nil }
