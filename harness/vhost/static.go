// Package vhost provides harness implementations of gpbft.Host.
package vhost

import (
	"context"
	"errors"
	"sync"
	"time"

	"github.com/filecoin-project/go-f3/gpbft"
	"github.com/filecoin-project/go-f3/verifharness/vcrypto"
)

// Static is a host for validation-only use: committees come from a callback,
// nothing is ever broadcast or decided.
type Static struct {
	vcrypto.Scheme
	NN        gpbft.NetworkName
	Committee func(instance uint64) (*gpbft.Committee, error)
	mu        sync.Mutex
	cache     map[uint64]*gpbft.Committee
}

var _ gpbft.Host = (*Static)(nil)

func (h *Static) GetProposal(context.Context, uint64) (*gpbft.SupplementalData, *gpbft.ECChain, error) {
	return nil, nil, errors.New("static host has no proposals")
}
func (h *Static) GetCommittee(_ context.Context, instance uint64) (*gpbft.Committee, error) {
	h.mu.Lock()
	defer h.mu.Unlock()
	if c, ok := h.cache[instance]; ok {
		return c, nil
	}
	c, err := h.Committee(instance)
	if err != nil {
		return nil, err
	}
	if h.cache == nil {
		h.cache = map[uint64]*gpbft.Committee{}
	}
	h.cache[instance] = c
	return c, nil
}
func (h *Static) NetworkName() gpbft.NetworkName               { return h.NN }
func (h *Static) RequestBroadcast(*gpbft.MessageBuilder) error { return nil }
func (h *Static) RequestRebroadcast(gpbft.Instant) error       { return nil }
func (h *Static) Time() time.Time                              { return time.Unix(1_700_000_000, 0) }
func (h *Static) SetAlarm(time.Time)                           {}
func (h *Static) ReceiveDecision(context.Context, *gpbft.Justification) (time.Time, error) {
	return time.Time{}, errors.New("static host")
}
