package t_codec

import (
	"bytes"
	"fmt"
	"testing"

	"github.com/filecoin-project/go-f3/certs"
	"github.com/filecoin-project/go-f3/chainexchange"
	"github.com/filecoin-project/go-f3/gpbft"
	"github.com/filecoin-project/go-f3/internal/encoding"
	"github.com/filecoin-project/go-f3/verifharness/vev"
	"github.com/filecoin-project/go-f3/verifharness/vgen"
	"pgregory.net/rapid"
)

// derivedOfChain: everything that is computed (and possibly memoised) from a chain.
func derivedOfChain(c *gpbft.ECChain) string {
	if c == nil {
		return "nil"
	}
	s := fmt.Sprintf("key=%x|", c.Key())
	for _, k := range c.KeysForPrefixes() {
		s += fmt.Sprintf("%x,", k[:6])
	}
	s += "|"
	for _, p := range c.AllPrefixes() {
		k := p.Key()
		s += fmt.Sprintf("%x,", k[:6])
	}
	p := gpbft.Payload{Instance: 7, Round: 1, Phase: gpbft.COMMIT_PHASE, Value: c}
	return s + fmt.Sprintf("|sign=%x", p.MarshalForSigning("vnet"))
}

// TestC14DecodeIntoUsedValue: decoding into a value that already held another chain and whose
// derived data (key, prefix keys, signing bytes) had been read must leave no trace of the old
// content: afterwards every derived datum is that of the newly decoded chain. Through raw
// UnmarshalCBOR and through the encoding package (CBOR and ZSTD).
func TestC14DecodeIntoUsedValue(t *testing.T) {
	rapid.Check(t, func(t *rapid.T) {
		a, b := genChain(t, "a", 12), genChain(t, "b", 12)
		if rapid.IntRange(0, 4).Draw(t, "bempty") == 0 {
			b = &gpbft.ECChain{}
		}
		if a.Len() == 0 {
			a = vgen.Chain(&gpbft.TipSet{Epoch: 1, Key: []byte("k"), PowerTable: vgen.DetCid("x")})
		}
		enc := func(v interface{ MarshalCBOR(w *bytes.Buffer) error }) []byte { return nil }
		_ = enc
		cb := func(c *gpbft.ECChain) []byte { var buf bytes.Buffer; _ = c.MarshalCBOR(&buf); return buf.Bytes() }
		sd := gpbft.SupplementalData{PowerTable: vgen.DetCid("reuse-sd")}
		want := derivedOfChain(b)
		via := rapid.SampledFrom([]string{"UnmarshalCBOR", "encoding.CBOR", "encoding.ZSTD"}).Draw(t, "via")
		kind := rapid.SampledFrom([]string{"ECChain", "Payload", "GMessage", "ChainMessage", "FinalityCertificate"}).Draw(t, "kind")
		fail := func(got string) {
			vev.Fail(t, c14, "C14/keys/stale-after-decode-into-used-value", "%s decoded (%s) into a value that had held another chain whose key had been read: derived data are not those of the decoded chain\n got: %.300s\nwant: %.300s", kind, via, got, want)
		}
		switch kind {
		case "ECChain":
			var x gpbft.ECChain
			if err := x.UnmarshalCBOR(bytes.NewReader(cb(a))); err != nil {
				t.Fatalf("HARNESS: %v", err)
			}
			_ = derivedOfChain(&x)
			var err error
			switch via {
			case "UnmarshalCBOR":
				err = x.UnmarshalCBOR(bytes.NewReader(cb(b)))
			case "encoding.CBOR":
				err = encoding.NewCBOR[*gpbft.ECChain]().Decode(cb(b), &x)
			default:
				z, _ := encoding.NewZSTD[*gpbft.ECChain]()
				zb, _ := z.Encode(b)
				err = z.Decode(zb, &x)
			}
			if err != nil {
				vev.Fail(t, c14, "C14/codec/decode-of-own-encoding-failed", "ECChain: decode into a used value failed: %v", err)
			}
			if got := derivedOfChain(&x); got != want {
				fail(got)
			}
		case "Payload":
			pa, pb := gpbft.Payload{Instance: 1, Phase: gpbft.PREPARE_PHASE, Value: a, SupplementalData: sd}, gpbft.Payload{Instance: 1, Phase: gpbft.PREPARE_PHASE, Value: b, SupplementalData: sd}
			var ba, bb bytes.Buffer
			if pa.MarshalCBOR(&ba) != nil || pb.MarshalCBOR(&bb) != nil {
				t.Fatalf("HARNESS: cannot encode test payloads")
			}
			var x gpbft.Payload
			_ = x.UnmarshalCBOR(bytes.NewReader(ba.Bytes()))
			_ = derivedOfChain(x.Value)
			if err := x.UnmarshalCBOR(bytes.NewReader(bb.Bytes())); err != nil {
				vev.Fail(t, c14, "C14/codec/decode-of-own-encoding-failed", "Payload: decode into a used value failed: %v", err)
			}
			if got := derivedOfChain(x.Value); got != want {
				fail(got)
			}
		case "GMessage":
			ma := &gpbft.GMessage{Sender: 1, Vote: gpbft.Payload{Instance: 1, Phase: gpbft.QUALITY_PHASE, Value: a, SupplementalData: sd}, Signature: []byte("s")}
			mb := &gpbft.GMessage{Sender: 1, Vote: gpbft.Payload{Instance: 1, Phase: gpbft.QUALITY_PHASE, Value: b, SupplementalData: sd}, Signature: []byte("s")}
			var ba, bb bytes.Buffer
			if ma.MarshalCBOR(&ba) != nil || mb.MarshalCBOR(&bb) != nil {
				t.Fatalf("HARNESS: cannot encode test messages")
			}
			var x gpbft.GMessage
			_ = x.UnmarshalCBOR(bytes.NewReader(ba.Bytes()))
			_ = derivedOfChain(x.Vote.Value)
			if err := x.UnmarshalCBOR(bytes.NewReader(bb.Bytes())); err != nil {
				vev.Fail(t, c14, "C14/codec/decode-of-own-encoding-failed", "GMessage: decode into a used value failed: %v", err)
			}
			if got := derivedOfChain(x.Vote.Value); got != want {
				fail(got)
			}
		case "ChainMessage":
			if b.Len() == 0 {
				b = a.Prefix(0)
				want = derivedOfChain(b)
			}
			ma, mb := &chainexchange.Message{Instance: 1, Chain: a, Timestamp: 5}, &chainexchange.Message{Instance: 1, Chain: b, Timestamp: 5}
			var ba, bb bytes.Buffer
			_ = ma.MarshalCBOR(&ba)
			_ = mb.MarshalCBOR(&bb)
			var x chainexchange.Message
			_ = x.UnmarshalCBOR(bytes.NewReader(ba.Bytes()))
			_ = derivedOfChain(x.Chain)
			if err := x.UnmarshalCBOR(bytes.NewReader(bb.Bytes())); err != nil {
				vev.Fail(t, c14, "C14/codec/decode-of-own-encoding-failed", "chainexchange.Message: decode into a used value failed: %v", err)
			}
			if got := derivedOfChain(x.Chain); got != want {
				fail(got)
			}
		default:
			if b.Len() == 0 {
				b = a.Prefix(0)
				want = derivedOfChain(b)
			}
			cc := vgen.GenCertChain(t, "cc", 1, 4, "reuse")
			ca, cbb := vgen.CloneCert(cc.Certs[0]), vgen.CloneCert(cc.Certs[0])
			ca.ECChain, cbb.ECChain = a, b
			var ba, bb bytes.Buffer
			_ = ca.MarshalCBOR(&ba)
			_ = cbb.MarshalCBOR(&bb)
			var x certs.FinalityCertificate
			_ = x.UnmarshalCBOR(bytes.NewReader(ba.Bytes()))
			_ = derivedOfChain(x.ECChain)
			if err := x.UnmarshalCBOR(bytes.NewReader(bb.Bytes())); err != nil {
				vev.Fail(t, c14, "C14/codec/decode-of-own-encoding-failed", "FinalityCertificate: decode into a used value failed: %v", err)
			}
			if got := derivedOfChain(x.ECChain); got != want {
				fail(got)
			}
		}
		vev.Case(c14, vev.Digest("reuse", kind, via, cb(a), cb(b)), true, "decode-into-used-value:"+kind, "decode-into-used-value-via:"+via)
	})
}
