package t_codec

import (
	"bytes"
	"encoding/json"
	"fmt"
	"testing"

	"github.com/filecoin-project/go-f3/certs"
	"github.com/filecoin-project/go-f3/gpbft"
	"github.com/filecoin-project/go-f3/verifharness/vev"
	"github.com/filecoin-project/go-f3/verifharness/vgen"
	"pgregory.net/rapid"
)

// TestC14JSON: the JSON forms (API / tooling wire format) of tipsets, chains,
// supplemental data, payloads and certificates decode to an equal value. Tipset
// keys are concatenations of 1..20 CIDs, as the JSON form requires.
func TestC14JSON(t *testing.T) {
	rapid.Check(t, func(t *rapid.T) {
		cidKey := func(label string) []byte {
			n := rapid.IntRange(1, 20).Draw(t, label+".ncids")
			if rapid.IntRange(0, 3).Draw(t, label+".few") > 0 {
				n = rapid.IntRange(1, 3).Draw(t, label+".ncids2")
			}
			var key []byte
			for i := 0; i < n; i++ {
				key = append(key, vgen.DetCid(label, i, rapid.IntRange(0, 1<<30).Draw(t, label+".cid")).Bytes()...)
			}
			return key
		}
		n := rapid.IntRange(1, 12).Draw(t, "len")
		if rapid.IntRange(0, 9).Draw(t, "long") == 0 {
			n = rapid.IntRange(100, 128).Draw(t, "longlen")
		}
		chain := &gpbft.ECChain{}
		epoch := rapid.Int64Range(0, 1<<40).Draw(t, "epoch")
		for i := 0; i < n; i++ {
			ts := &gpbft.TipSet{Epoch: epoch, Key: cidKey(fmt.Sprintf("k%d", i)), PowerTable: vgen.DetCid("pt", i, epoch)}
			if rapid.Bool().Draw(t, "commit") {
				copy(ts.Commitments[:], vgen.DetBytes(32, "cm", i, epoch))
			}
			chain.TipSets = append(chain.TipSets, ts)
			epoch += int64(rapid.IntRange(1, 3).Draw(t, "gap"))
		}
		if err := chain.Validate(); err != nil {
			t.Fatalf("HARNESS: generated chain invalid: %v", err)
		}
		cborOf := func(m interface{ MarshalCBOR(w *bytes.Buffer) error }) []byte { return nil }
		_ = cborOf
		roundTrip := func(name string, in any, out any, enc func(any) []byte) {
			b, err := json.Marshal(in)
			if err != nil {
				vev.Fail(t, c14, "C14/json/encode-failed", "%s: json.Marshal of a well-formed value failed: %v", name, err)
			}
			b2, _ := json.Marshal(in)
			if !bytes.Equal(b, b2) {
				vev.Fail(t, c14, "C14/json/encode-non-deterministic", "%s: two JSON encodings of one value differ", name)
			}
			if err := json.Unmarshal(b, out); err != nil {
				vev.Fail(t, c14, "C14/json/decode-of-own-encoding-failed", "%s: cannot decode its own JSON (%d bytes): %v", name, len(b), err)
			}
			if !bytes.Equal(enc(in), enc(out)) {
				vev.Fail(t, c14, "C14/json/roundtrip-value", "%s: decode(encode(x)) != x through JSON", name)
			}
			vev.Case(c14, vev.Digest("json", name, b), true, "json-roundtrip:"+name)
		}
		tsEnc := func(v any) []byte { var b bytes.Buffer; _ = v.(*gpbft.TipSet).MarshalCBOR(&b); return b.Bytes() }
		chEnc := func(v any) []byte { var b bytes.Buffer; _ = v.(*gpbft.ECChain).MarshalCBOR(&b); return b.Bytes() }
		sdEnc := func(v any) []byte { var b bytes.Buffer; _ = v.(*gpbft.SupplementalData).MarshalCBOR(&b); return b.Bytes() }
		plEnc := func(v any) []byte { var b bytes.Buffer; _ = v.(*gpbft.Payload).MarshalCBOR(&b); return b.Bytes() }
		fcEnc := func(v any) []byte { var b bytes.Buffer; _ = v.(*certs.FinalityCertificate).MarshalCBOR(&b); return b.Bytes() }
		roundTrip("TipSet", chain.TipSets[0], &gpbft.TipSet{}, tsEnc)
		roundTrip("ECChain", chain, &gpbft.ECChain{}, chEnc)
		sd := &gpbft.SupplementalData{PowerTable: vgen.DetCid("sd", n)}
		if rapid.Bool().Draw(t, "sdcommit") {
			copy(sd.Commitments[:], vgen.DetBytes(32, "sdc", n))
		}
		roundTrip("SupplementalData", sd, &gpbft.SupplementalData{}, sdEnc)
		p := &gpbft.Payload{Instance: rapid.Uint64().Draw(t, "inst"), Round: rapid.Uint64().Draw(t, "round"), Phase: gpbft.Phase(rapid.IntRange(1, 5).Draw(t, "phase")), SupplementalData: *sd, Value: chain}
		roundTrip("Payload", p, &gpbft.Payload{}, plEnc)
		cc := vgen.GenCertChain(t, "cc", 1, 6, "json")
		c := cc.Certs[0]
		c.ECChain = chain
		c.SupplementalData = *sd
		roundTrip("FinalityCertificate", c, &certs.FinalityCertificate{}, fcEnc)
	})
}
