package t_codec

import (
	"bytes"
	"strings"
	"fmt"
	"runtime"
	"testing"

	"github.com/filecoin-project/go-f3/certexchange"
	"github.com/filecoin-project/go-f3/certs"
	"github.com/filecoin-project/go-f3/certstore"
	"github.com/filecoin-project/go-f3/chainexchange"
	"github.com/filecoin-project/go-f3/gpbft"
	"github.com/filecoin-project/go-f3/internal/encoding"
	"github.com/filecoin-project/go-f3/verifharness/vev"
	"github.com/filecoin-project/go-f3/verifharness/vgen"
	"github.com/filecoin-project/go-f3/verifharness/vref"
	"github.com/klauspost/compress/zstd"
	"pgregory.net/rapid"
)

const c14 = "C14"

func TestMain(m *testing.M) {
	vev.Rule(c14, "generated payloads/chains (length 0..128, keys 1..760 bytes, commitments, null rounds) with every single-field perturbation (network, instance, round, phase, supplemental commitments/CID; per tipset epoch, key, CID, commitments; chain length +-1, swap, inner drop) checked for changed signing bytes and for equality with an independent encoder; chain keys via Key / KeysForPrefixes / AllPrefixes / Prefix(i).Key against an independent merkle computation for all prefixes of all lengths 1..128; VRF inputs; "+
		"round trips of every wire/storage type (TipSet, ECChain, Payload, SupplementalData, GMessage, PartialGMessage, Justification, PowerEntry/Entries, PowerTableDelta/Diff, FinalityCertificate, certexchange Request/ResponseHeader, chainexchange Message, SnapshotHeader) through raw CBOR, encoding.CBOR and encoding.ZSTD with field-wise comparison and deterministic re-encoding; structural mutation of valid encodings (truncate at every/sampled offset, flip, inflate a length header, splice, zstd frames that over-expand) must return an error or a re-encodable value, never panic, never allocate beyond 64 MiB. "+
		"Non-trivial = chain of >=2 tipsets for sensitivity/keys, an accepted decode for round trips, a mutated input for robustness; distinct by digest of the bytes")
	vev.Main(m)
}

func genChain(t *rapid.T, label string, maxLen int) *gpbft.ECChain {
	if maxLen >= 100 && rapid.IntRange(0, 7).Draw(t, label+".boundary") == 0 {
		// boundary size: (almost) the maximum number of tipsets, every key at its 760-byte maximum
		n := rapid.IntRange(maxLen-28, maxLen).Draw(t, label+".blen")
		ts := make([]*gpbft.TipSet, n)
		for i := range ts {
			ts[i] = &gpbft.TipSet{Epoch: int64(i * 3), Key: vgen.DetBytes(gpbft.TipsetKeyMaxLen, "bk", label, i), PowerTable: vgen.DetCid("bpt", i)}
			copy(ts[i].Commitments[:], vgen.DetBytes(32, "bc", i))
		}
		return vgen.Chain(ts...)
	}
	n := rapid.OneOf(rapid.IntRange(0, 6), rapid.IntRange(0, maxLen), rapid.Just(maxLen)).Draw(t, label+".len")
	if n == 0 {
		return &gpbft.ECChain{}
	}
	return vgen.Chain(vgen.Linear(t, label, n, label)...)
}

func genPayload(t *rapid.T, label string) (gpbft.NetworkName, gpbft.Payload) {
	nn := gpbft.NetworkName(rapid.SampledFrom([]string{"", "a", "vnet", "filecoin", "vnet:x", "vnet/2"}).Draw(t, label+".nn"))
	p := gpbft.Payload{
		Instance: rapid.OneOf(rapid.Uint64Range(0, 10), rapid.Uint64()).Draw(t, label+".inst"),
		Round:    rapid.OneOf(rapid.Uint64Range(0, 10), rapid.Uint64()).Draw(t, label+".round"),
		Phase:    gpbft.Phase(rapid.IntRange(0, 6).Draw(t, label+".phase")),
		Value:    genChain(t, label+".v", 128),
	}
	p.SupplementalData.PowerTable = vgen.DetCid("sd", rapid.IntRange(0, 3).Draw(t, label+".sdcid"))
	if rapid.Bool().Draw(t, label+".sdc") {
		copy(p.SupplementalData.Commitments[:], vgen.DetBytes(32, "c", rapid.IntRange(0, 3).Draw(t, label+".sdcn")))
	}
	return nn, p
}

// TestC14SigningBytes: signing bytes equal the independent encoding and change with every field.
func TestC14SigningBytes(t *testing.T) {
	rapid.Check(t, func(t *rapid.T) {
		nn, p := genPayload(t, "p")
		got := p.MarshalForSigning(nn)
		want := vref.PayloadSigningBytes(nn, p.Instance, p.Round, p.Phase, p.SupplementalData, p.Value)
		if !bytes.Equal(got, want) {
			vev.Fail(t, c14, "C14/signing/differs-from-reference", "MarshalForSigning differs from the documented layout (instance %d round %d phase %d chain len %d)", p.Instance, p.Round, p.Phase, p.Value.Len())
		}
		// determinism on a fresh copy
		p2 := p
		p2.Value = vgen.CloneChain(p.Value)
		if !bytes.Equal(got, p2.MarshalForSigning(nn)) {
			vev.Fail(t, c14, "C14/signing/non-deterministic", "MarshalForSigning of an equal copy differs")
		}
		if k := p.Value.Key(); !bytes.Equal(got, p.MarshalForSigningWithValueKey(nn, k)) {
			vev.Fail(t, c14, "C14/signing/with-key-differs", "MarshalForSigningWithValueKey(Key()) differs from MarshalForSigning")
		}
		// one perturbation
		q := p
		q.Value = vgen.CloneChain(p.Value)
		qnn := nn
		ops := []string{"nn", "instance", "round", "phase", "sd-commit", "sd-cid", "chain-append", "chain-drop-last", "ts-epoch", "ts-key", "ts-cid", "ts-commit", "chain-swap", "chain-drop-inner", "bottom-vs-base"}
		op := rapid.SampledFrom(ops).Draw(t, "perturb")
		applied := true
		n := q.Value.Len()
		switch op {
		case "nn":
			qnn = nn + "x"
		case "instance":
			q.Instance ^= 1 << uint(rapid.IntRange(0, 63).Draw(t, "bit"))
		case "round":
			q.Round ^= 1 << uint(rapid.IntRange(0, 63).Draw(t, "bit"))
		case "phase":
			q.Phase = (q.Phase + 1) % 7
		case "sd-commit":
			q.SupplementalData.Commitments[rapid.IntRange(0, 31).Draw(t, "cb")] ^= 1
		case "sd-cid":
			q.SupplementalData.PowerTable = vgen.DetCid("othersd")
		case "chain-append":
			last := int64(0)
			if n > 0 {
				last = q.Value.TipSets[n-1].Epoch
			}
			q.Value = q.Value.Append(&gpbft.TipSet{Epoch: last + 1, Key: []byte("extra"), PowerTable: vgen.DetCid("x")})
		case "chain-drop-last":
			if n == 0 {
				applied = false
			} else {
				q.Value = &gpbft.ECChain{TipSets: q.Value.TipSets[:n-1]}
			}
		case "ts-epoch", "ts-key", "ts-cid", "ts-commit":
			if n == 0 {
				applied = false
				break
			}
			ts := q.Value.TipSets[rapid.IntRange(0, n-1).Draw(t, "ts")]
			switch op {
			case "ts-epoch":
				ts.Epoch += int64(rapid.SampledFrom([]int{-1, 1, 256, 1 << 32}).Draw(t, "de"))
			case "ts-key":
				if rapid.Bool().Draw(t, "keyflip") {
					ts.Key[rapid.IntRange(0, len(ts.Key)-1).Draw(t, "kb")] ^= 1 << uint(rapid.IntRange(0, 7).Draw(t, "kbit"))
				} else {
					ts.Key = append(ts.Key, 0)
				}
			case "ts-cid":
				ts.PowerTable = vgen.DetCid("otherpt")
			default:
				ts.Commitments[rapid.IntRange(0, 31).Draw(t, "cb")] ^= 0x40
			}
		case "chain-swap":
			if n < 2 {
				applied = false
			} else {
				i := rapid.IntRange(0, n-2).Draw(t, "swap")
				q.Value.TipSets[i], q.Value.TipSets[i+1] = q.Value.TipSets[i+1], q.Value.TipSets[i]
			}
		case "chain-drop-inner":
			if n < 3 {
				applied = false
			} else {
				i := rapid.IntRange(1, n-2).Draw(t, "drop")
				q.Value = &gpbft.ECChain{TipSets: append(append([]*gpbft.TipSet(nil), q.Value.TipSets[:i]...), q.Value.TipSets[i+1:]...)}
			}
		case "bottom-vs-base":
			if n != 0 {
				applied = false
			} else {
				q.Value = vgen.Chain(&gpbft.TipSet{Epoch: 0, Key: []byte{0}, PowerTable: vgen.DetCid("z")})
			}
		}
		if applied {
			q.Value = vgen.CloneChain(q.Value) // fresh key cache
			if bytes.Equal(got, q.MarshalForSigning(qnn)) {
				vev.Fail(t, c14, "C14/signing/insensitive", "signing bytes unchanged after perturbation %q (chain len %d)", op, n)
			}
		}
		vev.Case(c14, vev.Digest("sign", got, op), p.Value.Len() >= 2, "signing", "perturb:"+op, fmt.Sprintf("perturb-applied:%v", applied))
		vev.Sample(c14, func() any {
			return map[string]any{"kind": "signing", "network": nn, "instance": p.Instance, "round": p.Round, "phase": p.Phase, "chain_len": p.Value.Len(), "perturbation": op, "applied": applied}
		})
	})
}

// TestC14ChainKeys: all ways of computing a chain key agree, for every prefix.
func TestC14ChainKeys(t *testing.T) {
	shard, shards := vev.Shard()
	// deterministic sweep over all lengths 1..128 (split over shards) plus generated chains
	for n := 1 + shard; n <= 128; n += shards {
		ts := make([]*gpbft.TipSet, n)
		for i := range ts {
			ts[i] = &gpbft.TipSet{Epoch: int64(i * 2), Key: vgen.DetBytes(1+(i*37)%760, "k", n, i), PowerTable: vgen.DetCid("pt", n, i)}
		}
		checkKeys(t, vgen.Chain(ts...))
		vev.Case(c14, vev.Digest("keys-sweep", n), n >= 2, "keys-sweep")
	}
	rapid.Check(t, func(t *rapid.T) {
		c := genChain(t, "c", 128)
		checkKeys(t, c)
		vev.Case(c14, vev.Digest("keys", vref.ChainKey(c)), c.Len() >= 2, "keys")
		if c.Len() >= 2 {
			at := rapid.IntRange(0, c.Len()-2).Draw(t, "extendat")
			viaAll := rapid.Bool().Draw(t, "viaall")
			checkDerivedStayConsistent(t, c, at, viaAll)
			vev.Case(c14, vev.Digest("keys-append", vref.ChainKey(c), at, viaAll), true, "keys-after-append-to-prefix")
		}
	})
}

func checkKeys(t vev.FailTB, c *gpbft.ECChain) {
	if c.Len() == 0 {
		if !c.Key().IsZero() || len(c.KeysForPrefixes()) != 0 || len(c.AllPrefixes()) != 0 {
			vev.Fail(t, c14, "C14/keys/bottom", "the empty chain has a non-zero key or prefixes")
		}
		return
	}
	batch := vgen.CloneChain(c).KeysForPrefixes()
	all := vgen.CloneChain(c).AllPrefixes()
	if len(batch) != c.Len() || len(all) != c.Len() {
		vev.Fail(t, c14, "C14/keys/count", "chain of %d: %d batch keys, %d prefix objects", c.Len(), len(batch), len(all))
	}
	for i := 0; i < c.Len(); i++ {
		ref := gpbft.ECChainKey(vref.ChainKey(&gpbft.ECChain{TipSets: c.TipSets[:i+1]}))
		direct := vgen.CloneChain(&gpbft.ECChain{TipSets: c.TipSets[:i+1]}).Key()
		viaPrefix := vgen.CloneChain(c).Prefix(i).Key()
		cached := all[i].Key()
		fresh := vgen.CloneChain(all[i]).Key()
		if direct != ref || viaPrefix != ref || batch[i] != ref || cached != ref || fresh != ref {
			vev.Fail(t, c14, "C14/keys/disagree", "chain of %d tipsets, prefix %d: reference %x direct %x Prefix(i).Key %x KeysForPrefixes %x AllPrefixes(cached) %x", c.Len(), i, ref[:4], direct[:4], viaPrefix[:4], batch[i][:4], cached[:4])
		}
		if all[i].Len() != i+1 || !vref.ChainEq(all[i], &gpbft.ECChain{TipSets: c.TipSets[:i+1]}) {
			vev.Fail(t, c14, "C14/keys/prefix-content", "AllPrefixes()[%d] is not the prefix of length %d", i, i+1)
		}
	}
}

// checkDerivedStayConsistent: the prefix objects the chain type hands out (AllPrefixes with
// their cached keys, Prefix(i)) are used as values in their own right; extending one of them
// (Append / Extend return a new chain) must leave the parent chain and every sibling object
// what they were: same tipsets, and a cached key that is still the key of their content.
func checkDerivedStayConsistent(t vev.FailTB, c *gpbft.ECChain, at int, viaAll bool) {
	if c.Len() < 2 {
		return
	}
	parent := vgen.CloneChain(c)
	all := parent.AllPrefixes()
	var victim *gpbft.ECChain
	if viaAll {
		victim = all[at]
	} else {
		victim = parent.Prefix(at)
	}
	before := victim.Len()
	extra := &gpbft.TipSet{Epoch: victim.Head().Epoch + 1, Key: []byte("appended-to-a-prefix"), PowerTable: victim.Head().PowerTable}
	longer := victim.Append(extra)
	if longer.Len() != before+1 || !vref.TipSetEq(longer.TipSets[before], extra) || [32]byte(longer.Key()) != vref.ChainKey(longer) {
		vev.Fail(t, c14, "C14/keys/append-result", "Append on a prefix object of length %d gave a chain of %d tipsets or a key that is not the key of its content", before, longer.Len())
	}
	if !vref.ChainEq(parent, c) || [32]byte(parent.Key()) != vref.ChainKey(c) {
		vev.Fail(t, c14, "C14/keys/parent-changed-by-append", "appending to the prefix object of length %d (of %d) changed the chain it was derived from", at+1, c.Len())
	}
	for i, p := range all {
		want := &gpbft.ECChain{TipSets: c.TipSets[:i+1]}
		if !vref.ChainEq(p, want) || [32]byte(p.Key()) != vref.ChainKey(want) || [32]byte(p.Key()) != vref.ChainKey(p) {
			vev.Fail(t, c14, "C14/keys/sibling-changed-by-append", "after appending to the prefix object of length %d, the prefix object of length %d no longer holds its tipsets or its cached key is not the key of its content", at+1, i+1)
		}
	}
}

func TestC14VRF(t *testing.T) {
	rapid.Check(t, func(t *rapid.T) {
		nn := gpbft.NetworkName(rapid.SampledFrom([]string{"", "vnet", "vnet:x"}).Draw(t, "nn"))
		beacon := vgen.DetBytes(rapid.IntRange(0, 64).Draw(t, "bl"), "b", rapid.IntRange(0, 5).Draw(t, "bn"))
		inst, round := rapid.Uint64().Draw(t, "inst"), rapid.Uint64().Draw(t, "round")
		got := gpbft.VerifVRFInput(beacon, inst, round, nn)
		if !bytes.Equal(got, vref.VRFInputBytes(nn, beacon, inst, round)) {
			vev.Fail(t, c14, "C14/vrf/differs-from-reference", "VRF input differs from the documented layout")
		}
		op := rapid.SampledFrom([]string{"beacon", "instance", "round", "nn"}).Draw(t, "perturb")
		b2, i2, r2, n2 := append([]byte(nil), beacon...), inst, round, nn
		switch op {
		case "beacon":
			b2 = append(b2, 1)
		case "instance":
			i2 ^= 1 << uint(rapid.IntRange(0, 63).Draw(t, "bit"))
		case "round":
			r2 ^= 1 << uint(rapid.IntRange(0, 63).Draw(t, "bit"))
		default:
			n2 += "y"
		}
		if bytes.Equal(got, gpbft.VerifVRFInput(b2, i2, r2, n2)) {
			vev.Fail(t, c14, "C14/vrf/insensitive", "VRF input unchanged after changing %s", op)
		}
		// the builder hands the same bytes to the signer
		vev.Case(c14, vev.Digest("vrf", got, op), true, "vrf", "vrf-perturb:"+op)
	})
}

// ---- codecs -------------------------------------------------------------

type codecCase struct {
	name   string
	enc    func() ([]byte, error)                 // raw CBOR of the generated value
	dec    func(b []byte) error                   // decode b into a fresh value (nothing else: this is what the allocation bound measures)
	decEnc func(b []byte) ([]byte, string, error) // decode b into a fresh value, return re-encoding and a field-wise description
	desc   string                                 // field-wise description of the generated value
	zstd   func(b []byte) error                   // round trip through encoding.ZSTD / encoding.CBOR starting from the value
}

func descChain(c *gpbft.ECChain) string {
	var s strings.Builder
	fmt.Fprintf(&s, "chain[%d]", c.Len())
	if c != nil {
		for _, ts := range c.TipSets {
			fmt.Fprintf(&s, "{%d %x %s %x}", ts.Epoch, ts.Key, ts.PowerTable, ts.Commitments)
		}
	}
	return s.String()
}
func descPayload(p *gpbft.Payload) string {
	return fmt.Sprintf("payload{%d %d %d %x %s %s}", p.Instance, p.Round, p.Phase, p.SupplementalData.Commitments, p.SupplementalData.PowerTable, descChain(p.Value))
}
func descJust(j *gpbft.Justification) string {
	if j == nil {
		return "nil"
	}
	return fmt.Sprintf("just{%s %v %x}", descPayload(&j.Vote), vgen.SignerIndices(j.Signers), j.Signature)
}
func descMsg(m *gpbft.GMessage) string {
	return fmt.Sprintf("msg{%d %s %x %x %s}", m.Sender, descPayload(&m.Vote), m.Signature, []byte(m.Ticket), descJust(m.Justification))
}
func descEntries(e gpbft.PowerEntries) string {
	var s strings.Builder
	fmt.Fprintf(&s, "entries[%d]", len(e))
	for _, x := range e {
		fmt.Fprintf(&s, "{%d %s %x}", x.ID, x.Power, []byte(x.PubKey))
	}
	return s.String()
}
func descDiff(d certs.PowerTableDiff) string {
	var s strings.Builder
	fmt.Fprintf(&s, "diff[%d]", len(d))
	for _, x := range d {
		fmt.Fprintf(&s, "{%d %s %x}", x.ParticipantID, x.PowerDelta, []byte(x.SigningKey))
	}
	return s.String()
}
func descCert(c *certs.FinalityCertificate) string {
	return fmt.Sprintf("cert{%d %s %x %s %v %x %s}", c.GPBFTInstance, descChain(c.ECChain), c.SupplementalData.Commitments, c.SupplementalData.PowerTable, vgen.SignerIndices(c.Signers), c.Signature, descDiff(c.PowerTableDelta))
}

type cborT interface {
	encoding.CBORMarshalUnmarshaler
}

func mk[T any, PT interface {
	*T
	cborT
}](name string, v PT, desc func(PT) string) codecCase {
	return codecCase{
		name: name,
		desc: desc(v),
		enc: func() ([]byte, error) {
			var b bytes.Buffer
			err := v.MarshalCBOR(&b)
			return b.Bytes(), err
		},
		dec: func(b []byte) error {
			var x T
			return PT(&x).UnmarshalCBOR(bytes.NewReader(b))
		},
		decEnc: func(b []byte) ([]byte, string, error) {
			var x T
			if err := PT(&x).UnmarshalCBOR(bytes.NewReader(b)); err != nil {
				return nil, "", err
			}
			var out bytes.Buffer
			if err := PT(&x).MarshalCBOR(&out); err != nil {
				return nil, "", fmt.Errorf("re-encode: %w", err)
			}
			return out.Bytes(), desc(PT(&x)), nil
		},
		zstd: func(raw []byte) error {
			z, err := encoding.NewZSTD[PT]()
			if err != nil {
				return err
			}
			c := encoding.NewCBOR[PT]()
			b1, err := c.Encode(v)
			if err != nil {
				return fmt.Errorf("cbor encode: %w", err)
			}
			if !bytes.Equal(b1, raw) {
				return fmt.Errorf("encoding.CBOR differs from MarshalCBOR")
			}
			var x1 T
			if err := c.Decode(b1, PT(&x1)); err != nil {
				return fmt.Errorf("cbor decode: %w", err)
			}
			if desc(PT(&x1)) != desc(v) {
				return fmt.Errorf("encoding.CBOR round trip changed the value")
			}
			if len(raw) > 1<<20 {
				return nil
			}
			b2, err := z.Encode(v)
			if err != nil {
				return fmt.Errorf("zstd encode: %w", err)
			}
			b3, err := z.Encode(v)
			if err != nil || !bytes.Equal(b2, b3) {
				return fmt.Errorf("zstd encode not deterministic (%v)", err)
			}
			var x2 T
			if err := z.Decode(b2, PT(&x2)); err != nil {
				return fmt.Errorf("zstd decode: %w", err)
			}
			if desc(PT(&x2)) != desc(v) {
				return fmt.Errorf("encoding.ZSTD round trip changed the value")
			}
			return nil
		},
	}
}

func genCodecCase(t *rapid.T) codecCase {
	kind := rapid.SampledFrom([]string{"TipSet", "ECChain", "Payload", "SupplementalData", "GMessage", "PartialGMessage", "Justification", "PowerEntry", "PowerEntries", "PowerTableDelta", "PowerTableDiff", "FinalityCertificate", "Request", "ResponseHeader", "ChainMessage", "SnapshotHeader"}).Draw(t, "type")
	w := vgen.GenMsgWorld(t, "w", 3, 1, 8)
	switch kind {
	case "TipSet":
		ts := vgen.TipSet(t, "ts", rapid.Int64Range(0, 1<<40).Draw(t, "epoch"))
		return mk(kind, ts, func(x *gpbft.TipSet) string { return descChain(&gpbft.ECChain{TipSets: []*gpbft.TipSet{x}}) })
	case "ECChain":
		return mk(kind, genChain(t, "c", 128), descChain)
	case "Payload":
		_, p := genPayload(t, "p")
		return mk(kind, &p, descPayload)
	case "SupplementalData":
		_, p := genPayload(t, "p")
		return mk(kind, &p.SupplementalData, func(s *gpbft.SupplementalData) string { return fmt.Sprintf("%x %s", s.Commitments, s.PowerTable) })
	case "GMessage", "PartialGMessage", "Justification":
		m, _ := w.GenValidMsg(t, "m", 3, 3)
		if rapid.Bool().Draw(t, "mutated") {
			m, _ = w.MutateMsg(t, "mut", m)
			if m.Vote.Value.Len() > 128 || m.Vote.Value.Validate() != nil {
				m.Vote.Value = &gpbft.ECChain{}
			}
			if len(m.Signature) > 96 {
				m.Signature = m.Signature[:96]
			}
		}
		if kind == "GMessage" {
			return mk(kind, m, descMsg)
		}
		if kind == "Justification" {
			j := m.Justification
			if j == nil {
				j = w.Justify(3, 0, gpbft.PREPARE_PHASE, w.Values[3][0], []int{0})
			}
			return mk(kind, j, descJust)
		}
		pm := &gpbft.PartialGMessage{GMessage: m, VoteValueKey: m.Vote.Value.Key()}
		return mk(kind, pm, func(p *gpbft.PartialGMessage) string {
			return fmt.Sprintf("%s key=%x", descMsg(p.GMessage), p.VoteValueKey)
		})
	case "PowerEntry":
		e := vgen.Entries(t, "e", 1, 3).Entries[0]
		return mk(kind, &e, func(x *gpbft.PowerEntry) string { return descEntries(gpbft.PowerEntries{*x}) })
	case "PowerEntries":
		maxN := 40
		if vev.Thorough() && rapid.IntRange(0, 20).Draw(t, "huge") == 0 {
			maxN = 8192
		}
		e := vgen.Entries(t, "e", 1, maxN).Entries
		c := mk(kind, &e, func(x *gpbft.PowerEntries) string { return descEntries(*x) })
		// independent encoder
		raw, _ := c.enc()
		if !bytes.Equal(raw, vref.TableCBOR(e)) {
			c.desc = "ENCODER-DIFFERS-FROM-REFERENCE"
		}
		return c
	case "PowerTableDelta", "PowerTableDiff":
		a := vgen.Entries(t, "a", 1, 12).Entries
		d := vref.MakeDiff(a, vgen.Evolve(t, "ev", a, 6))
		if kind == "PowerTableDelta" {
			if len(d) == 0 {
				d = certs.PowerTableDiff{{ParticipantID: 7, PowerDelta: gpbft.NewStoragePower(-5)}}
			}
			return mk(kind, &d[0], func(x *certs.PowerTableDelta) string { return descDiff(certs.PowerTableDiff{*x}) })
		}
		return mk(kind, &d, func(x *certs.PowerTableDiff) string { return descDiff(*x) })
	case "FinalityCertificate":
		cc := vgen.GenCertChain(t, "cc", 1, 10, "codec")
		return mk(kind, cc.Certs[0], descCert)
	case "Request":
		r := &certexchange.Request{FirstInstance: rapid.Uint64().Draw(t, "fi"), Limit: rapid.OneOf(rapid.Uint64Range(0, 300), rapid.Just(certexchange.NoLimit)).Draw(t, "lim"), IncludePowerTable: rapid.Bool().Draw(t, "ipt")}
		return mk(kind, r, func(x *certexchange.Request) string { return fmt.Sprintf("%+v", *x) })
	case "ResponseHeader":
		h := &certexchange.ResponseHeader{PendingInstance: rapid.Uint64().Draw(t, "pi")}
		if rapid.Bool().Draw(t, "withtable") {
			h.PowerTable = vgen.Entries(t, "e", 1, 20).Entries
		}
		return mk(kind, h, func(x *certexchange.ResponseHeader) string {
			return fmt.Sprintf("%d %s", x.PendingInstance, descEntries(x.PowerTable))
		})
	case "ChainMessage":
		m := &chainexchange.Message{Instance: rapid.Uint64().Draw(t, "inst"), Chain: genChain(t, "c", 128), Timestamp: rapid.Int64().Draw(t, "ts")}
		return mk(kind, m, func(x *chainexchange.Message) string {
			return fmt.Sprintf("%d %s %d", x.Instance, descChain(x.Chain), x.Timestamp)
		})
	default:
		h := &certstore.SnapshotHeader{Version: rapid.Uint64Range(0, 3).Draw(t, "v"), FirstInstance: rapid.Uint64().Draw(t, "f"), LatestInstance: rapid.Uint64().Draw(t, "l"), InitialPowerTable: vgen.Entries(t, "e", 1, 20).Entries}
		return mk("SnapshotHeader", h, func(x *certstore.SnapshotHeader) string {
			return fmt.Sprintf("%d %d %d %s", x.Version, x.FirstInstance, x.LatestInstance, descEntries(x.InitialPowerTable))
		})
	}
}

func allocDuring(f func()) uint64 {
	var a, b runtime.MemStats
	runtime.ReadMemStats(&a)
	f()
	runtime.ReadMemStats(&b)
	return b.TotalAlloc - a.TotalAlloc
}

const allocBound = 64 << 20

// TestC14Codecs: round trips and robustness against structural mutation.
func TestC14Codecs(t *testing.T) {
	rapid.Check(t, func(t *rapid.T) {
		c := genCodecCase(t)
		raw, err := c.enc()
		if err != nil {
			vev.Fail(t, c14, "C14/codec/encode-failed", "%s: MarshalCBOR of a well-formed value failed: %v", c.name, err)
		}
		if c.desc == "ENCODER-DIFFERS-FROM-REFERENCE" {
			vev.Fail(t, c14, "C14/codec/encoder-differs-from-reference", "%s: encoding differs from the independent encoder", c.name)
		}
		raw2, _ := c.enc()
		if !bytes.Equal(raw, raw2) {
			vev.Fail(t, c14, "C14/codec/encode-non-deterministic", "%s: two encodings of one value differ", c.name)
		}
		re, desc, err := c.decEnc(raw)
		if err != nil {
			vev.Fail(t, c14, "C14/codec/decode-of-own-encoding-failed", "%s: cannot decode its own encoding (%d bytes): %v", c.name, len(raw), err)
		}
		if desc != c.desc {
			vev.Fail(t, c14, "C14/codec/roundtrip-value", "%s: decode(encode(x)) != x\n   x: %.400s\n got: %.400s", c.name, c.desc, desc)
		}
		if !bytes.Equal(re, raw) {
			vev.Fail(t, c14, "C14/codec/roundtrip-bytes", "%s: encode(decode(b)) != b", c.name)
		}
		if err := c.zstd(raw); err != nil {
			vev.Fail(t, c14, "C14/codec/encoding-package", "%s: %v", c.name, err)
		}
		vev.Case(c14, vev.Digest("rt", c.name, raw), true, "roundtrip:"+c.name)
		// structural mutation
		nm := rapid.IntRange(1, 8).Draw(t, "nmut")
		for i := 0; i < nm; i++ {
			mut := append([]byte(nil), raw...)
			op := rapid.SampledFrom([]string{"truncate", "truncate", "flip", "inflate", "splice", "append", "overlimit", "overlimit"}).Draw(t, "mutop")
			mustReject := false
			switch op {
			case "overlimit":
				// replace the header of one array / map / byte string / text string of the valid
				// encoding (found with an independent CBOR walker) by one announcing a length far
				// beyond every documented limit and beyond the bytes that follow: never decodable
				hs := cborHeaders(raw)
				var cands []cborHeader
				for _, h := range hs {
					if h.major == 2 || h.major == 3 || h.major == 4 || h.major == 5 {
						cands = append(cands, h)
					}
				}
				if len(cands) == 0 {
					op = "truncate-all"
					mut = mut[:0]
					if len(raw) == 0 {
						mustReject = false
					} else {
						mustReject = true
					}
					break
				}
				h := cands[rapid.IntRange(0, len(cands)-1).Draw(t, "hdrpos")]
				L := rapid.SampledFrom([]uint64{1 << 31, 1<<32 - 1, 1 << 32, 1<<63 - 1, 1 << 63, 1<<63 + 1, 1<<64 - 1, 1<<64 - 129, 1 << 40}).Draw(t, "announced")
				nh := []byte{byte(h.major<<5) | 27, byte(L >> 56), byte(L >> 48), byte(L >> 40), byte(L >> 32), byte(L >> 24), byte(L >> 16), byte(L >> 8), byte(L)}
				if L < 1<<32 && rapid.Bool().Draw(t, "short") {
					nh = []byte{byte(h.major<<5) | 26, byte(L >> 24), byte(L >> 16), byte(L >> 8), byte(L)}
				}
				mut = append(append(append([]byte(nil), raw[:h.off]...), nh...), raw[h.off+h.hlen:]...)
				mustReject = true
			case "truncate":
				if len(mut) > 0 {
					mut = mut[:rapid.IntRange(0, len(mut)-1).Draw(t, "cut")]
				}
			case "flip":
				if len(mut) > 0 {
					mut[rapid.IntRange(0, len(mut)-1).Draw(t, "pos")] ^= 1 << uint(rapid.IntRange(0, 7).Draw(t, "bit"))
				}
			case "inflate":
				// overwrite a position with a CBOR header announcing a gigantic length
				if len(mut) > 0 {
					pos := rapid.IntRange(0, len(mut)-1).Draw(t, "pos")
					hdr := rapid.SampledFrom([][]byte{{0x9b, 0xff, 0xff, 0xff, 0xff, 0xff, 0xff, 0xff, 0xff}, {0x5a, 0x7f, 0xff, 0xff, 0xff}, {0x9a, 0x00, 0x10, 0x00, 0x00}, {0x5b, 0, 0, 0, 1, 0, 0, 0, 0}, {0x7a, 0x7f, 0xff, 0xff, 0xff}}).Draw(t, "hdr")
					mut = append(append(append([]byte(nil), mut[:pos]...), hdr...), mut[pos:]...)
				}
			case "splice":
				if len(mut) > 2 {
					a := rapid.IntRange(0, len(mut)-2).Draw(t, "a")
					b := rapid.IntRange(a+1, len(mut)-1).Draw(t, "b")
					mut = append(append([]byte(nil), mut[:a]...), mut[b:]...)
				}
			case "append":
				mut = append(mut, vgen.DetBytes(rapid.IntRange(1, 16).Draw(t, "tail"), "tail")...)
			}
			var rerr error
			var rre []byte
			// the allocation bound is about decoding alone (re-encoding and rendering the decoded
			// value for comparison are the harness's own work)
			alloc := allocDuring(func() {
				defer func() {
					if r := recover(); r != nil {
						rerr = fmt.Errorf("PANIC: %v", r)
					}
				}()
				rerr = c.dec(mut)
			})
			if rerr == nil {
				func() {
					defer func() {
						if r := recover(); r != nil {
							rerr = fmt.Errorf("PANIC: %v", r)
						}
					}()
					rre, _, rerr = c.decEnc(mut)
				}()
			}
			if rerr != nil && len(rerr.Error()) > 6 && rerr.Error()[:6] == "PANIC:" {
				vev.Fail(t, c14, "C14/codec/decode-panic", "%s: decoding mutated input (%s) panicked: %v", c.name, op, rerr)
			}
			if alloc > allocBound {
				vev.Fail(t, c14, "C14/codec/decode-allocation", "%s: decoding %d mutated bytes (%s) allocated %d bytes", c.name, len(mut), op, alloc)
			}
			if mustReject && rerr == nil {
				vev.Fail(t, c14, "C14/codec/over-limit-accepted", "%s: an encoding in which one length header was replaced by one announcing a length beyond every limit (and beyond the input) decoded without error (%s)", c.name, op)
			}
			if op == "truncate" && rerr == nil {
				vev.Fail(t, c14, "C14/codec/truncated-accepted", "%s: a strict prefix (%d of %d bytes) of a valid encoding decoded without error", c.name, len(mut), len(raw))
			}
			if rerr == nil {
				// whatever was accepted re-encodes and decodes to itself
				re2, _, err := c.decEnc(rre)
				if err != nil || !bytes.Equal(re2, rre) {
					vev.Fail(t, c14, "C14/codec/accepted-not-stable", "%s: accepted mutated input does not survive a second round trip (%v)", c.name, err)
				}
			}
			verdict := "rejected"
			if rerr == nil {
				verdict = "accepted"
			}
			vev.Case(c14, vev.Digest("mut", c.name, mut), true, "mutation:"+op, "mutation-verdict:"+verdict)
		}
		vev.Sample(c14, func() any {
			return map[string]any{"kind": "codec", "type": c.name, "encoded_bytes": len(raw), "mutations": nm}
		})
	})
}

// TestC14ZstdBombs: frames that expand beyond the 1 MiB cap must be refused cheaply.
func TestC14ZstdBombs(t *testing.T) {
	enc, err := zstd.NewWriter(nil)
	if err != nil {
		t.Fatal(err)
	}
	z, err := encoding.NewZSTD[*gpbft.GMessage]()
	if err != nil {
		t.Fatal(err)
	}
	for _, size := range []int{1<<20 + 1, 2 << 20, 16 << 20, 256 << 20} {
		frame := enc.EncodeAll(make([]byte, size), nil)
		var derr error
		alloc := allocDuring(func() {
			var m gpbft.GMessage
			derr = z.Decode(frame, &m)
		})
		if derr == nil {
			vev.Fail(t, c14, "C14/zstd/over-expansion-accepted", "a %d byte frame expanding to %d bytes decoded without error", len(frame), size)
		}
		if alloc > allocBound {
			vev.Fail(t, c14, "C14/zstd/over-expansion-allocation", "decoding a %d byte frame expanding to %d bytes allocated %d bytes", len(frame), size, alloc)
		}
		vev.Case(c14, vev.Digest("bomb", size), true, "zstd-bomb")
	}
	// an encoder must refuse what a decoder cannot take back
	big := &gpbft.GMessage{Vote: gpbft.Payload{Value: &gpbft.ECChain{}}}
	_ = big
}


type cborHeader struct {
	off, hlen int
	major     byte
	arg       uint64
}

// cborHeaders walks one well-formed CBOR item (independent of cbor-gen) and
// returns the position of every header in it; nil if the bytes are not one
// well-formed item.
func cborHeaders(b []byte) []cborHeader {
	var out []cborHeader
	var walk func(off int, depth int) int
	walk = func(off int, depth int) int {
		if off < 0 || off >= len(b) || depth > 64 {
			return -1
		}
		ib := b[off]
		major, info := ib>>5, ib&31
		hlen, arg := 1, uint64(info)
		switch {
		case info < 24:
		case info == 24:
			hlen = 2
		case info == 25:
			hlen = 3
		case info == 26:
			hlen = 5
		case info == 27:
			hlen = 9
		default:
			return -1
		}
		if off+hlen > len(b) {
			return -1
		}
		if hlen > 1 {
			arg = 0
			for _, x := range b[off+1 : off+hlen] {
				arg = arg<<8 | uint64(x)
			}
		}
		out = append(out, cborHeader{off: off, hlen: hlen, major: major, arg: arg})
		next := off + hlen
		switch major {
		case 0, 1, 7:
			return next
		case 2, 3:
			if arg > uint64(len(b)-next) {
				return -1
			}
			return next + int(arg)
		case 4, 5:
			n := arg
			if major == 5 {
				n *= 2
			}
			if n > uint64(len(b)) {
				return -1
			}
			for i := uint64(0); i < n; i++ {
				if next = walk(next, depth+1); next < 0 {
					return -1
				}
			}
			return next
		default: // tag
			return walk(next, depth+1)
		}
	}
	if end := walk(0, 0); end != len(b) {
		return nil
	}
	return out
}
