package t_codec

import (
	"bytes"
	"fmt"
	"testing"

	"github.com/filecoin-project/go-f3/certexchange"
	"github.com/filecoin-project/go-f3/certs"
	"github.com/filecoin-project/go-f3/certstore"
	"github.com/filecoin-project/go-f3/chainexchange"
	"github.com/filecoin-project/go-f3/gpbft"
	"github.com/filecoin-project/go-f3/internal/encoding"
	"github.com/filecoin-project/go-f3/verifharness/vcrypto"
	"github.com/filecoin-project/go-f3/verifharness/vgen"
)

// Native coverage-guided fuzz targets (thorough tier only; the quick tier runs
// them over their seed corpus as ordinary tests). The oracle is inside the
// target: no panic, an accepted input re-encodes to bytes that decode to the
// same bytes again, and decoding never allocates beyond the bound.

var hostile = [][]byte{
	{0x9b, 0xff, 0xff, 0xff, 0xff, 0xff, 0xff, 0xff, 0xff},       // array of 2^64-1
	{0x5a, 0x7f, 0xff, 0xff, 0xff},                               // 2 GiB byte string
	{0x85, 0x9a, 0x00, 0x10, 0x00, 0x00},                         // tuple whose first field is a 1M array
	{0x83, 0x1b, 0xff, 0xff, 0xff, 0xff, 0xff, 0xff, 0xff, 0xff}, // huge uint
	{0x28, 0xb5, 0x2f, 0xfd, 0x04, 0x58, 0xff, 0xff, 0xff, 0xff}, // zstd magic + garbage
	{},
}

type rt func(b []byte) (reenc []byte, err error)

func roundTripper[T any, PT interface {
	*T
	cborT
}]() rt {
	return func(b []byte) ([]byte, error) {
		var x T
		if err := PT(&x).UnmarshalCBOR(bytes.NewReader(b)); err != nil {
			return nil, err
		}
		var out bytes.Buffer
		if err := PT(&x).MarshalCBOR(&out); err != nil {
			return nil, fmt.Errorf("re-encode of an accepted value failed: %w", err)
		}
		return out.Bytes(), nil
	}
}

func fuzzDecode(f *testing.F, name string, dec rt, seeds [][]byte) {
	for _, s := range seeds {
		f.Add(s)
	}
	for _, h := range hostile {
		f.Add(h)
	}
	f.Fuzz(func(t *testing.T, data []byte) {
		if len(data) > 1<<20 {
			return
		}
		var re []byte
		var err error
		alloc := uint64(0)
		func() {
			defer func() {
				if r := recover(); r != nil {
					t.Fatalf("VERIF-FAIL property=C14 sig=C14/fuzz/%s/panic: %v", name, r)
				}
			}()
			if len(data) < 64 {
				// allocation is measured on short inputs, where a hostile header is most of the input
				alloc = allocDuring(func() { re, err = dec(data) })
			} else {
				re, err = dec(data)
			}
		}()
		if alloc > allocBound {
			t.Fatalf("VERIF-FAIL property=C14 sig=C14/fuzz/%s/allocation: decoding %d bytes allocated %d", name, len(data), alloc)
		}
		if err != nil {
			return
		}
		re2, err := dec(re)
		if err != nil || !bytes.Equal(re, re2) {
			t.Fatalf("VERIF-FAIL property=C14 sig=C14/fuzz/%s/unstable: an accepted input does not survive a second round trip (%v)", name, err)
		}
	})
}

func seedMsgs() (msgs [][]byte, justs [][]byte, partials [][]byte, chains [][]byte) {
	base := &gpbft.TipSet{Epoch: 1, Key: []byte("fuzz-base"), PowerTable: vgen.DetCid("fb")}
	t1 := &gpbft.TipSet{Epoch: 3, Key: vgen.DetBytes(760, "fk"), PowerTable: vgen.DetCid("f1")}
	ch := vgen.Chain(base, t1)
	sd := gpbft.SupplementalData{PowerTable: vgen.DetCid("fsd")}
	j := &gpbft.Justification{Vote: gpbft.Payload{Instance: 7, Round: 1, Phase: gpbft.PREPARE_PHASE, SupplementalData: sd, Value: ch}, Signers: vgen.Bitfield([]int{0, 2, 5}), Signature: vgen.DetBytes(96, "js")}
	m := &gpbft.GMessage{Sender: 9, Vote: gpbft.Payload{Instance: 7, Round: 2, Phase: gpbft.CONVERGE_PHASE, SupplementalData: sd, Value: ch}, Signature: vgen.DetBytes(96, "ms"), Ticket: vgen.DetBytes(96, "tk"), Justification: j}
	enc := func(x interface {
		MarshalCBOR(w interface{ Write([]byte) (int, error) }) error
	}) []byte { return nil }
	_ = enc
	var b bytes.Buffer
	_ = m.MarshalCBOR(&b)
	msgs = append(msgs, append([]byte(nil), b.Bytes()...))
	b.Reset()
	_ = j.MarshalCBOR(&b)
	justs = append(justs, append([]byte(nil), b.Bytes()...))
	b.Reset()
	pm := &gpbft.PartialGMessage{GMessage: m, VoteValueKey: ch.Key()}
	_ = pm.MarshalCBOR(&b)
	partials = append(partials, append([]byte(nil), b.Bytes()...))
	b.Reset()
	_ = ch.MarshalCBOR(&b)
	chains = append(chains, append([]byte(nil), b.Bytes()...))
	b.Reset()
	_ = (&gpbft.ECChain{}).MarshalCBOR(&b)
	chains = append(chains, append([]byte(nil), b.Bytes()...))
	return
}

func FuzzC14GMessage(f *testing.F) {
	m, _, _, _ := seedMsgs()
	fuzzDecode(f, "GMessage", roundTripper[gpbft.GMessage](), m)
}
func FuzzC14Justification(f *testing.F) {
	_, j, _, _ := seedMsgs()
	fuzzDecode(f, "Justification", roundTripper[gpbft.Justification](), j)
}
func FuzzC14PartialGMessage(f *testing.F) {
	_, _, p, _ := seedMsgs()
	fuzzDecode(f, "PartialGMessage", roundTripper[gpbft.PartialGMessage](), p)
}
func FuzzC14ECChain(f *testing.F) {
	_, _, _, c := seedMsgs()
	fuzzDecode(f, "ECChain", roundTripper[gpbft.ECChain](), c)
}
func FuzzC14PowerEntries(f *testing.F) {
	e := gpbft.PowerEntries{{ID: 1, Power: gpbft.NewStoragePower(5), PubKey: vcrypto.PubKey(1)}, {ID: 2, Power: gpbft.NewStoragePower(3), PubKey: vcrypto.PubKey(2)}}
	var b bytes.Buffer
	_ = e.MarshalCBOR(&b)
	fuzzDecode(f, "PowerEntries", roundTripper[gpbft.PowerEntries](), [][]byte{b.Bytes()})
}
func FuzzC14FinalityCertificate(f *testing.F) {
	base := &gpbft.TipSet{Epoch: 1, Key: []byte("fuzz-base"), PowerTable: vgen.DetCid("fb")}
	c := &certs.FinalityCertificate{GPBFTInstance: 3, ECChain: vgen.Chain(base), SupplementalData: gpbft.SupplementalData{PowerTable: vgen.DetCid("x")}, Signers: vgen.Bitfield([]int{0, 1}), Signature: vgen.DetBytes(96, "cs"),
		PowerTableDelta: certs.PowerTableDiff{{ParticipantID: 4, PowerDelta: gpbft.NewStoragePower(-2)}, {ParticipantID: 9, PowerDelta: gpbft.NewStoragePower(7), SigningKey: vcrypto.PubKey(9)}}}
	var b bytes.Buffer
	_ = c.MarshalCBOR(&b)
	fuzzDecode(f, "FinalityCertificate", roundTripper[certs.FinalityCertificate](), [][]byte{b.Bytes()})
}
func FuzzC14ResponseHeader(f *testing.F) {
	h := &certexchange.ResponseHeader{PendingInstance: 77, PowerTable: gpbft.PowerEntries{{ID: 1, Power: gpbft.NewStoragePower(5), PubKey: vcrypto.PubKey(1)}}}
	var b bytes.Buffer
	_ = h.MarshalCBOR(&b)
	fuzzDecode(f, "ResponseHeader", roundTripper[certexchange.ResponseHeader](), [][]byte{b.Bytes()})
}
func FuzzC14ChainMessage(f *testing.F) {
	base := &gpbft.TipSet{Epoch: 1, Key: []byte("fuzz-base"), PowerTable: vgen.DetCid("fb")}
	m := &chainexchange.Message{Instance: 5, Chain: vgen.Chain(base), Timestamp: 1_700_000_000_000}
	var b bytes.Buffer
	_ = m.MarshalCBOR(&b)
	fuzzDecode(f, "ChainMessage", roundTripper[chainexchange.Message](), [][]byte{b.Bytes()})
}
func FuzzC14SnapshotHeader(f *testing.F) {
	h := &certstore.SnapshotHeader{Version: 1, FirstInstance: 3, LatestInstance: 9, InitialPowerTable: gpbft.PowerEntries{{ID: 1, Power: gpbft.NewStoragePower(5), PubKey: vcrypto.PubKey(1)}}}
	var b bytes.Buffer
	_ = h.MarshalCBOR(&b)
	fuzzDecode(f, "SnapshotHeader", roundTripper[certstore.SnapshotHeader](), [][]byte{b.Bytes()})
}

// FuzzC14ZstdGMessage: the compressed codec on arbitrary frames.
func FuzzC14ZstdGMessage(f *testing.F) {
	z, err := encoding.NewZSTD[*gpbft.GMessage]()
	if err != nil {
		f.Fatal(err)
	}
	m, _, _, _ := seedMsgs()
	var gm gpbft.GMessage
	_ = gm.UnmarshalCBOR(bytes.NewReader(m[0]))
	if frame, err := z.Encode(&gm); err == nil {
		f.Add(frame)
	}
	for _, h := range hostile {
		f.Add(h)
	}
	f.Fuzz(func(t *testing.T, data []byte) {
		defer func() {
			if r := recover(); r != nil {
				t.Fatalf("VERIF-FAIL property=C14 sig=C14/fuzz/zstd/panic: %v", r)
			}
		}()
		var x gpbft.GMessage
		var derr error
		alloc := allocDuring(func() { derr = z.Decode(data, &x) })
		if alloc > allocBound {
			t.Fatalf("VERIF-FAIL property=C14 sig=C14/fuzz/zstd/allocation: decoding a %d byte frame allocated %d", len(data), alloc)
		}
		if derr == nil {
			if _, err := z.Encode(&x); err != nil {
				t.Fatalf("VERIF-FAIL property=C14 sig=C14/fuzz/zstd/unstable: accepted value cannot be re-encoded: %v", err)
			}
		}
	})
}
