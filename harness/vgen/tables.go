// Package vgen holds the rapid generators shared by the property tests.
package vgen

import (
	"math/big"
	"sort"

	"github.com/filecoin-project/go-f3/gpbft"
	"github.com/filecoin-project/go-f3/verifharness/vcrypto"
	"pgregory.net/rapid"
)

// TableSpec describes how a power table was generated (for labels/samples).
type TableSpec struct {
	Kind    string
	Entries gpbft.PowerEntries
}

func bigPow2(n uint) *big.Int { return new(big.Int).Lsh(big.NewInt(1), n) }

// Entries draws 1..maxN power entries with distinct ids from a mixture of
// shapes: uniform, skewed/geometric, whale, dust (scaled power floors to 0),
// huge (up to 2^200) powers. Keys are vcrypto keys of the id.
func Entries(t *rapid.T, label string, minN, maxN int) TableSpec {
	n := rapid.IntRange(minN, maxN).Draw(t, label+".n")
	kind := rapid.SampledFrom([]string{"uniform", "uniform", "skewed", "whale", "dust", "huge", "random", "bits", "bits-dominant"}).Draw(t, label+".kind")
	idBase := rapid.Uint64Range(1, 1000).Draw(t, label+".idbase")
	ids := make([]uint64, 0, n)
	seen := map[uint64]bool{}
	for len(ids) < n {
		id := idBase + uint64(rapid.IntRange(0, 4*n+3).Draw(t, label+".id"))
		for seen[id] {
			id++
		}
		seen[id] = true
		ids = append(ids, id)
	}
	entries := make(gpbft.PowerEntries, n)
	for i := 0; i < n; i++ {
		var p *big.Int
		switch kind {
		case "uniform":
			p = big.NewInt(int64(rapid.IntRange(1, 3).Draw(t, label+".u")))
			if i > 0 && rapid.IntRange(0, 3).Draw(t, label+".same") > 0 {
				p = new(big.Int).Set(entries[0].Power.Int)
			}
		case "skewed":
			p = bigPow2(uint(rapid.IntRange(0, 24).Draw(t, label+".sk")))
			p.Add(p, big.NewInt(int64(rapid.IntRange(0, 5).Draw(t, label+".skadd"))))
		case "whale":
			if i == 0 {
				p = big.NewInt(int64(rapid.IntRange(100, 1_000_000).Draw(t, label+".whale")))
			} else {
				p = big.NewInt(int64(rapid.IntRange(1, 400).Draw(t, label+".minnow")))
			}
		case "dust":
			if i == 0 {
				p = bigPow2(uint(rapid.IntRange(17, 60).Draw(t, label+".big")))
			} else if rapid.Bool().Draw(t, label+".isdust") {
				p = big.NewInt(int64(rapid.IntRange(1, 3).Draw(t, label+".dust")))
			} else {
				p = bigPow2(uint(rapid.IntRange(10, 60).Draw(t, label+".mid")))
			}
		case "huge":
			p = bigPow2(uint(rapid.IntRange(60, 200).Draw(t, label+".huge")))
			p.Add(p, big.NewInt(int64(rapid.IntRange(0, 1000).Draw(t, label+".hugeadd"))))
		case "bits", "bits-dominant":
			// a power of every magnitude: the bit length is drawn (with extra weight on machine
			// word boundaries), the lower bits are random; "bits-dominant" has one such member
			// and small ones around it, so that the table's total has that bit length too
			if kind == "bits-dominant" && i > 0 {
				p = big.NewInt(int64(rapid.IntRange(1, 1<<20).Draw(t, label+".small")))
				break
			}
			p = BitsPower(t, label+".bits")
		default:
			p = big.NewInt(rapid.Int64Range(1, 1<<40).Draw(t, label+".rnd"))
		}
		entries[i] = gpbft.PowerEntry{ID: gpbft.ActorID(ids[i]), Power: gpbft.StoragePower{Int: p}, PubKey: vcrypto.PubKey(ids[i])}
	}
	sort.Sort(entries)
	return TableSpec{Kind: kind, Entries: entries}
}

// BitsPower draws a positive integer whose bit length is uniform over 1..130 or
// sits next to a machine-word boundary (15..17, 31..33, 46..49, 62..65, 127..129).
func BitsPower(t *rapid.T, label string) *big.Int {
	var b int
	if rapid.Bool().Draw(t, label+".edge") {
		b = rapid.SampledFrom([]int{15, 16, 17, 31, 32, 33, 46, 47, 48, 49, 62, 63, 64, 65, 127, 128, 129}).Draw(t, label+".edgelen")
	} else {
		b = rapid.IntRange(1, 130).Draw(t, label+".len")
	}
	p := bigPow2(uint(b - 1))
	low := new(big.Int).SetUint64(rapid.Uint64().Draw(t, label+".low"))
	if rapid.IntRange(0, 3).Draw(t, label+".allones") == 0 {
		low.SetUint64(^uint64(0))
	}
	if b-1 < 64 {
		low.And(low, new(big.Int).Sub(bigPow2(uint(b-1)), big.NewInt(1)))
	}
	return p.Or(p, low)
}

// Table builds a gpbft.PowerTable from entries through the public API.
func Table(entries gpbft.PowerEntries) *gpbft.PowerTable {
	pt := gpbft.NewPowerTable()
	cp := make(gpbft.PowerEntries, len(entries))
	copy(cp, entries)
	if err := pt.Add(cp...); err != nil {
		panic(err)
	}
	return pt
}

// Keys returns the public keys in table order.
func Keys(pt *gpbft.PowerTable) []gpbft.PubKey { return pt.Entries.PublicKeys() }
