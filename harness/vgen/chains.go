package vgen

import (
	"crypto/sha256"
	"encoding/binary"
	"fmt"

	"github.com/filecoin-project/go-f3/gpbft"
	"github.com/ipfs/go-cid"
	"pgregory.net/rapid"
)

// DetBytes derives n deterministic pseudo-random bytes from a label and numbers
// (content is irrelevant to shrinking, only sizes and identities matter).
func DetBytes(n int, parts ...any) []byte {
	out := make([]byte, 0, n+32)
	seed := sha256.Sum256([]byte(fmt.Sprint(parts...)))
	ctr := uint64(0)
	for len(out) < n {
		var b [8]byte
		binary.BigEndian.PutUint64(b[:], ctr)
		h := sha256.Sum256(append(seed[:], b[:]...))
		out = append(out, h[:]...)
		ctr++
	}
	return out[:n]
}

func DetCid(parts ...any) cid.Cid { return gpbft.MakeCid(DetBytes(16, parts...)) }

// KeyLen draws a tipset key length biased to small sizes with boundary values.
func KeyLen(t *rapid.T, label string) int {
	switch rapid.IntRange(0, 9).Draw(t, label+".klmode") {
	case 0:
		return 1
	case 1:
		return gpbft.TipsetKeyMaxLen
	case 2:
		return rapid.IntRange(1, gpbft.TipsetKeyMaxLen).Draw(t, label+".kl")
	default:
		return rapid.IntRange(4, 40).Draw(t, label+".kl")
	}
}

// TipSet draws one tipset at the given epoch; tag makes the content unique.
func TipSet(t *rapid.T, label string, epoch int64, tag ...any) *gpbft.TipSet {
	ts := &gpbft.TipSet{
		Epoch:      epoch,
		Key:        DetBytes(KeyLen(t, label), append([]any{"key", epoch}, tag...)...),
		PowerTable: DetCid(append([]any{"pt", epoch}, tag...)...),
	}
	if rapid.IntRange(0, 2).Draw(t, label+".commit") == 0 {
		copy(ts.Commitments[:], DetBytes(32, append([]any{"cm", epoch}, tag...)...))
	}
	return ts
}

// Linear draws a linear EC history of n tipsets starting at a generated epoch,
// with null rounds (epoch gaps).
func Linear(t *rapid.T, label string, n int, tag ...any) []*gpbft.TipSet {
	epoch := int64(rapid.IntRange(0, 1000).Draw(t, label+".epoch0"))
	out := make([]*gpbft.TipSet, n)
	for i := range out {
		out[i] = TipSet(t, label, epoch, append([]any{i}, tag...)...)
		gap := int64(1)
		if rapid.IntRange(0, 4).Draw(t, label+".null") == 0 {
			gap += int64(rapid.IntRange(1, 5).Draw(t, label+".gap"))
		}
		epoch += gap
	}
	return out
}

func Chain(ts ...*gpbft.TipSet) *gpbft.ECChain {
	cp := make([]*gpbft.TipSet, len(ts))
	copy(cp, ts)
	return &gpbft.ECChain{TipSets: cp}
}

func CloneTipSet(ts *gpbft.TipSet) *gpbft.TipSet {
	if ts == nil {
		return nil
	}
	c := *ts
	c.Key = append([]byte(nil), ts.Key...)
	return &c
}

// CloneChain deep-copies a chain (fresh key cache).
func CloneChain(c *gpbft.ECChain) *gpbft.ECChain {
	if c == nil {
		return nil
	}
	out := &gpbft.ECChain{}
	if c.TipSets != nil {
		out.TipSets = make([]*gpbft.TipSet, len(c.TipSets))
		for i, ts := range c.TipSets {
			out.TipSets[i] = CloneTipSet(ts)
		}
	}
	return out
}
