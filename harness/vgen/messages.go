package vgen

import (
	"fmt"

	"github.com/filecoin-project/go-bitfield"
	"github.com/filecoin-project/go-f3/gpbft"
	"github.com/filecoin-project/go-f3/verifharness/vcrypto"
	"github.com/filecoin-project/go-f3/verifharness/vref"
	"pgregory.net/rapid"
)

// MsgWorld is the static context in which messages are built and validated:
// committees (table + beacon) per instance, supplemental data per instance and
// a small tree of candidate values over a common base per instance.
type MsgWorld struct {
	NN         gpbft.NetworkName
	Committees map[uint64]vref.Committee
	Supp       map[uint64]gpbft.SupplementalData
	Values     map[uint64][]*gpbft.ECChain // non-bottom candidate values, all sharing the instance's base
	TableKind  string
}

func (w *MsgWorld) GpbftCommittee(instance uint64) (*gpbft.Committee, error) {
	c, ok := w.Committees[instance]
	if !ok {
		return nil, fmt.Errorf("no committee for %d", instance)
	}
	pt := Table(c.Entries)
	agg, _ := vcrypto.Scheme{}.Aggregate(pt.Entries.PublicKeys())
	return &gpbft.Committee{PowerTable: pt, Beacon: c.Beacon, AggregateVerifier: agg}, nil
}

// GenMsgWorld draws committees for instances [first, first+n).
func GenMsgWorld(t *rapid.T, label string, first uint64, n int, maxMembers int) *MsgWorld {
	w := &MsgWorld{
		NN:         gpbft.NetworkName(rapid.SampledFrom([]string{"vnet", "vnet/2"}).Draw(t, label+".nn")),
		Committees: map[uint64]vref.Committee{},
		Supp:       map[uint64]gpbft.SupplementalData{},
		Values:     map[uint64][]*gpbft.ECChain{},
	}
	spec := Entries(t, label+".tbl", 1, maxMembers)
	w.TableKind = spec.Kind
	cur := spec.Entries
	for i := 0; i < n; i++ {
		inst := first + uint64(i)
		w.Committees[inst] = vref.Committee{Entries: cur, Beacon: DetBytes(rapid.IntRange(1, 40).Draw(t, label+".beaconlen"), "beacon", inst)}
		sd := gpbft.SupplementalData{PowerTable: DetCid("sd", inst)}
		if rapid.Bool().Draw(t, label+".sdc") {
			copy(sd.Commitments[:], DetBytes(32, "sdc", inst))
		}
		w.Supp[inst] = sd
		// values: a main chain and a fork
		l := rapid.IntRange(1, 6).Draw(t, label+".vlen")
		hist := Linear(t, label+".ec", l+1, "main", inst)
		var vals []*gpbft.ECChain
		for k := 1; k <= len(hist); k++ {
			vals = append(vals, Chain(hist[:k]...))
		}
		fork := TipSet(t, label+".fork", hist[0].Epoch+1, "fork", inst)
		vals = append(vals, Chain(hist[0], fork))
		w.Values[inst] = vals
		if rapid.IntRange(0, 2).Draw(t, label+".evolve") == 0 {
			cur = Evolve(t, label+".ev", cur, 2)
		}
	}
	return w
}

// Justify builds a justification (phase, round, value) for instance signed by
// the given signer indices.
func (w *MsgWorld) Justify(instance, round uint64, phase gpbft.Phase, value *gpbft.ECChain, signers []int) *gpbft.Justification {
	c := w.Committees[instance]
	sd := w.Supp[instance]
	payload := vref.PayloadSigningBytes(w.NN, instance, round, phase, sd, value)
	v := value
	if v == nil {
		v = &gpbft.ECChain{}
	}
	return &gpbft.Justification{
		Vote:      gpbft.Payload{Instance: instance, Round: round, Phase: phase, SupplementalData: sd, Value: CloneChain(v)},
		Signers:   Bitfield(signers),
		Signature: vcrypto.AggregateFor(c.Entries.PublicKeys(), signers, payload),
	}
}

// Sign (re)computes signature and, for CONVERGE, ticket of m for sender index si.
func (w *MsgWorld) Sign(m *gpbft.GMessage, si int) {
	c := w.Committees[m.Vote.Instance]
	pk := c.Entries[si].PubKey
	m.Sender = c.Entries[si].ID
	m.Signature = vcrypto.RawSign(pk, vref.PayloadSigningBytes(w.NN, m.Vote.Instance, m.Vote.Round, m.Vote.Phase, m.Vote.SupplementalData, m.Vote.Value))
	if m.Vote.Phase == gpbft.CONVERGE_PHASE {
		m.Ticket = vcrypto.RawSign(pk, vref.VRFInputBytes(w.NN, c.Beacon, m.Vote.Instance, m.Vote.Round))
	} else {
		m.Ticket = nil
	}
}

// MsgSpec names the shape of a valid message.
type MsgSpec struct {
	Instance uint64
	Round    uint64
	Phase    gpbft.Phase
	Bottom   bool   // value is bottom (PREPARE / COMMIT only)
	JustKind string // "", "prepare", "commit-bottom", "commit-value"
	Shape    string
}

// GenValidMsg constructs a valid message of a generated shape for instance.
func (w *MsgWorld) GenValidMsg(t *rapid.T, label string, instance uint64, maxRound uint64) (*gpbft.GMessage, MsgSpec) {
	c := w.Committees[instance]
	scaled, _ := vref.Scaled(c.Entries)
	var nz []int
	for i, s := range scaled {
		if s > 0 {
			nz = append(nz, i)
		}
	}
	si := nz[rapid.IntRange(0, len(nz)-1).Draw(t, label+".sender")]
	vals := w.Values[instance]
	value := vals[rapid.IntRange(0, len(vals)-1).Draw(t, label+".value")]
	smode := rapid.SampledFrom([]string{"all", "minimal", "random-quorum"}).Draw(t, label+".jsigners")
	signers := func() []int { return SignerSet(t, label+".js", c.Entries, smode) }
	shape := rapid.SampledFrom([]string{"quality", "prepare0", "prepare0-bottom", "prepare-r-commitbottom", "prepare-r-prepare", "converge-commitbottom", "converge-prepare", "commit-value", "commit-bottom", "decide"}).Draw(t, label+".shape")
	round := uint64(0)
	needRound := func(min uint64) uint64 {
		return min + uint64(rapid.IntRange(0, int(maxRound)).Draw(t, label+".round"))
	}
	m := &gpbft.GMessage{Vote: gpbft.Payload{Instance: instance, SupplementalData: w.Supp[instance]}}
	spec := MsgSpec{Instance: instance, Shape: shape}
	switch shape {
	case "quality":
		m.Vote.Phase, m.Vote.Value = gpbft.QUALITY_PHASE, CloneChain(value)
	case "prepare0":
		m.Vote.Phase, m.Vote.Value = gpbft.PREPARE_PHASE, CloneChain(value)
	case "prepare0-bottom":
		m.Vote.Phase, m.Vote.Value = gpbft.PREPARE_PHASE, &gpbft.ECChain{}
		spec.Bottom = true
	case "prepare-r-commitbottom", "converge-commitbottom":
		round = needRound(1)
		m.Vote.Phase = gpbft.PREPARE_PHASE
		if shape == "converge-commitbottom" {
			m.Vote.Phase = gpbft.CONVERGE_PHASE
		}
		m.Vote.Value = CloneChain(value)
		m.Justification = w.Justify(instance, round-1, gpbft.COMMIT_PHASE, nil, signers())
		spec.JustKind = "commit-bottom"
	case "prepare-r-prepare", "converge-prepare":
		round = needRound(1)
		m.Vote.Phase = gpbft.PREPARE_PHASE
		if shape == "converge-prepare" {
			m.Vote.Phase = gpbft.CONVERGE_PHASE
		}
		m.Vote.Value = CloneChain(value)
		m.Justification = w.Justify(instance, round-1, gpbft.PREPARE_PHASE, value, signers())
		spec.JustKind = "prepare"
	case "commit-value":
		round = needRound(0)
		m.Vote.Phase, m.Vote.Value = gpbft.COMMIT_PHASE, CloneChain(value)
		m.Justification = w.Justify(instance, round, gpbft.PREPARE_PHASE, value, signers())
		spec.JustKind = "prepare"
	case "commit-bottom":
		round = needRound(0)
		m.Vote.Phase, m.Vote.Value = gpbft.COMMIT_PHASE, &gpbft.ECChain{}
		spec.Bottom = true
	case "decide":
		m.Vote.Phase, m.Vote.Value = gpbft.DECIDE_PHASE, CloneChain(value)
		m.Justification = w.Justify(instance, needRound(0), gpbft.COMMIT_PHASE, value, signers())
		spec.JustKind = "commit-value"
	}
	m.Vote.Round = round
	spec.Round, spec.Phase = round, m.Vote.Phase
	w.Sign(m, si)
	return m, spec
}

func CloneJustification(j *gpbft.Justification) *gpbft.Justification {
	if j == nil {
		return nil
	}
	out := &gpbft.Justification{Vote: j.Vote, Signature: append([]byte(nil), j.Signature...)}
	out.Vote.Value = CloneChain(j.Vote.Value)
	var idx []uint64
	_ = j.Signers.ForEach(func(i uint64) error { idx = append(idx, i); return nil })
	out.Signers = bitfield.NewFromSet(idx)
	return out
}

func CloneMsg(m *gpbft.GMessage) *gpbft.GMessage {
	out := &gpbft.GMessage{Sender: m.Sender, Vote: m.Vote, Signature: append([]byte(nil), m.Signature...), Justification: CloneJustification(m.Justification)}
	if m.Ticket != nil {
		out.Ticket = append(gpbft.Ticket(nil), m.Ticket...)
	}
	out.Vote.Value = CloneChain(m.Vote.Value)
	return out
}

func senderIndex(c vref.Committee, id gpbft.ActorID) int {
	for i, e := range c.Entries {
		if e.ID == id {
			return i
		}
	}
	return -1
}

// MutateMsg applies one corruption/recombination operator to a copy of m.
// It returns the new message and the operator name ("resigned" variants keep
// the sender's own signature consistent, as a Byzantine sender could).
func (w *MsgWorld) MutateMsg(t *rapid.T, label string, m *gpbft.GMessage) (*gpbft.GMessage, string) {
	out := CloneMsg(m)
	inst := m.Vote.Instance
	c, okc := w.Committees[inst]
	if !okc || len(w.Values[inst]) == 0 {
		// message for an instance outside the world (earlier mutation): only
		// byte-level changes make sense
		if len(out.Signature) > 0 {
			out.Signature[0] ^= 1
		}
		return out, "sig-flip(outside-world)"
	}
	si := senderIndex(c, m.Sender)
	scaled, _ := vref.Scaled(c.Entries)
	ops := []string{
		"sender-unknown", "sender-other", "sender-zero-power",
		"value-other", "value-bottom", "value-malformed", "value-overlong",
		"round+1", "round-1", "phase-shift", "phase-invalid", "instance+1", "supp-commit", "supp-cid",
		"ticket-flip", "ticket-drop", "ticket-other-round", "ticket-add",
		"sig-flip", "sig-empty",
		"just-drop", "just-add", "just-phase", "just-round+1", "just-round-1", "just-instance", "just-supp", "just-value-other", "just-value-bottom",
		"just-signers-under", "just-signers-zero", "just-signers-index-len", "just-signers-empty", "just-sig-flip", "just-sig-other-value", "just-sig-other-nn",
	}
	op := rapid.SampledFrom(ops).Draw(t, label+".op")
	resign := func() string {
		if si >= 0 && rapid.Bool().Draw(t, label+".resign") {
			w.Sign(out, si)
			return "+resigned"
		}
		return ""
	}
	vals := w.Values[inst]
	otherValue := func() *gpbft.ECChain {
		for tries := 0; tries < 4; tries++ {
			v := vals[rapid.IntRange(0, len(vals)-1).Draw(t, label+".ov")]
			if !vref.ChainEq(v, m.Vote.Value) {
				return CloneChain(v)
			}
		}
		v := CloneChain(vals[0])
		v.TipSets[0].Epoch += 7
		return v
	}
	switch op {
	case "sender-unknown":
		out.Sender = gpbft.ActorID(1 << 50)
	case "sender-other":
		if len(c.Entries) > 1 {
			j := (si + 1 + rapid.IntRange(0, len(c.Entries)-2).Draw(t, label+".so")) % len(c.Entries)
			out.Sender = c.Entries[j].ID
		}
	case "sender-zero-power":
		for i, s := range scaled {
			if s == 0 {
				w.Sign(out, i) // a zero-power member signs for itself
				break
			}
		}
	case "value-other":
		out.Vote.Value = otherValue()
		op += resign()
	case "value-bottom":
		out.Vote.Value = &gpbft.ECChain{}
		op += resign()
	case "value-malformed":
		if len(out.Vote.Value.TipSets) > 0 {
			ts := out.Vote.Value.TipSets[len(out.Vote.Value.TipSets)-1]
			switch rapid.IntRange(0, 2).Draw(t, label+".mal") {
			case 0:
				ts.Key = nil
			case 1:
				ts.Epoch = -1
				if len(out.Vote.Value.TipSets) > 1 {
					ts.Epoch = out.Vote.Value.TipSets[len(out.Vote.Value.TipSets)-2].Epoch
				}
			default:
				ts.Key = DetBytes(gpbft.TipsetKeyMaxLen+1, "longkey")
			}
		}
		op += resign()
	case "value-overlong":
		if len(out.Vote.Value.TipSets) > 0 {
			base := out.Vote.Value.TipSets[0]
			ts := []*gpbft.TipSet{base}
			for i := 1; i <= gpbft.ChainMaxLen; i++ {
				ts = append(ts, &gpbft.TipSet{Epoch: base.Epoch + int64(i), Key: DetBytes(6, "ol", i), PowerTable: base.PowerTable})
			}
			out.Vote.Value = &gpbft.ECChain{TipSets: ts}
		}
		op += resign()
	case "round+1":
		out.Vote.Round++
		op += resign()
	case "round-1":
		out.Vote.Round--
		op += resign()
	case "phase-shift":
		out.Vote.Phase = gpbft.Phase((int(out.Vote.Phase)-1+rapid.IntRange(1, 4).Draw(t, label+".ps"))%5 + 1)
		op += resign()
	case "phase-invalid":
		out.Vote.Phase = gpbft.Phase(rapid.SampledFrom([]int{0, 6, 7, 255}).Draw(t, label+".pi"))
		op += resign()
	case "instance+1":
		out.Vote.Instance++
		if _, ok := w.Committees[out.Vote.Instance]; ok && si >= 0 {
			// sign with whatever key the same actor has there, if a member
			if j := senderIndex(w.Committees[out.Vote.Instance], m.Sender); j >= 0 && rapid.Bool().Draw(t, label+".resign") {
				w.Sign(out, j)
				op += "+resigned"
			}
		}
	case "supp-commit":
		out.Vote.SupplementalData.Commitments[3] ^= 1
		op += resign()
	case "supp-cid":
		out.Vote.SupplementalData.PowerTable = DetCid("badsupp")
		op += resign()
	case "ticket-flip":
		if len(out.Ticket) > 0 {
			out.Ticket[rapid.IntRange(0, len(out.Ticket)-1).Draw(t, label+".tb")] ^= 2
		}
	case "ticket-drop":
		out.Ticket = nil
	case "ticket-other-round":
		if si >= 0 {
			out.Ticket = vcrypto.RawSign(c.Entries[si].PubKey, vref.VRFInputBytes(w.NN, c.Beacon, inst, out.Vote.Round+1))
		}
	case "ticket-add":
		// a ticket on a message that needs none is irrelevant to validity
		if si >= 0 && out.Vote.Phase != gpbft.CONVERGE_PHASE {
			out.Ticket = vcrypto.RawSign(c.Entries[si].PubKey, vref.VRFInputBytes(w.NN, c.Beacon, inst, out.Vote.Round))
		}
	case "sig-flip":
		if len(out.Signature) > 0 {
			out.Signature[rapid.IntRange(0, len(out.Signature)-1).Draw(t, label+".sb")] ^= 4
		}
	case "sig-empty":
		out.Signature = nil
	case "just-drop":
		out.Justification = nil
	case "just-add":
		if out.Justification == nil {
			v := out.Vote.Value
			out.Justification = w.Justify(inst, out.Vote.Round, gpbft.PREPARE_PHASE, v, SignerSet(t, label+".ja", c.Entries, "minimal"))
		}
	default:
		j := out.Justification
		if j == nil {
			return out, op + "(n/a)"
		}
		resignJ := func(key *gpbft.ECChain, nn gpbft.NetworkName) {
			payload := vref.PayloadSigningBytes(nn, j.Vote.Instance, j.Vote.Round, j.Vote.Phase, j.Vote.SupplementalData, key)
			j.Signature = vcrypto.AggregateFor(c.Entries.PublicKeys(), SignerIndices(j.Signers), payload)
		}
		maybeResignJ := func() string {
			// the coalition cannot re-sign for honest members; a "resigned" variant
			// models a justification that really was produced for the altered fields
			if rapid.Bool().Draw(t, label+".jresign") {
				resignJ(j.Vote.Value, w.NN)
				return "+resigned"
			}
			return ""
		}
		switch op {
		case "just-phase":
			j.Vote.Phase = gpbft.Phase((int(j.Vote.Phase)-1+rapid.IntRange(1, 4).Draw(t, label+".jp"))%5 + 1)
			op += maybeResignJ()
		case "just-round+1":
			j.Vote.Round++
			op += maybeResignJ()
		case "just-round-1":
			j.Vote.Round--
			op += maybeResignJ()
		case "just-instance":
			j.Vote.Instance++
			op += maybeResignJ()
		case "just-supp":
			j.Vote.SupplementalData.Commitments[0] ^= 8
			op += maybeResignJ()
		case "just-value-other":
			j.Vote.Value = otherValue()
			op += maybeResignJ()
		case "just-value-bottom":
			j.Vote.Value = &gpbft.ECChain{}
			op += maybeResignJ()
		case "just-signers-under":
			j.Signers = Bitfield(SignerSet(t, label+".ju", c.Entries, "under"))
			resignJ(j.Vote.Value, w.NN)
		case "just-signers-zero":
			j.Signers = Bitfield(SignerSet(t, label+".jz", c.Entries, "with-zero"))
			resignJ(j.Vote.Value, w.NN)
		case "just-signers-index-len":
			s := append(SignerIndices(j.Signers), len(c.Entries))
			j.Signers = Bitfield(s)
		case "just-signers-empty":
			j.Signers = bitfield.New()
			resignJ(j.Vote.Value, w.NN)
		case "just-sig-flip":
			j.Signature[rapid.IntRange(0, len(j.Signature)-1).Draw(t, label+".jb")] ^= 1
		case "just-sig-other-value":
			resignJ(otherValue(), w.NN)
		case "just-sig-other-nn":
			resignJ(j.Vote.Value, w.NN+"x")
		}
	}
	return out, op
}
