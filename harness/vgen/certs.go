package vgen

import (
	"math/big"
	"sort"

	"github.com/filecoin-project/go-bitfield"
	"github.com/filecoin-project/go-f3/certs"
	"github.com/filecoin-project/go-f3/gpbft"
	"github.com/filecoin-project/go-f3/verifharness/vcrypto"
	"github.com/filecoin-project/go-f3/verifharness/vref"
	"pgregory.net/rapid"
)

// Evolve derives the next table from cur by a few member changes (add, remove,
// re-key, re-weight). The result is canonical and never empty.
func Evolve(t *rapid.T, label string, cur gpbft.PowerEntries, maxOps int) gpbft.PowerEntries {
	m := map[gpbft.ActorID]gpbft.PowerEntry{}
	var ids []gpbft.ActorID
	var maxID gpbft.ActorID
	for _, e := range cur {
		m[e.ID] = e
		ids = append(ids, e.ID)
		if e.ID > maxID {
			maxID = e.ID
		}
	}
	sort.Slice(ids, func(i, j int) bool { return ids[i] < ids[j] })
	nops := rapid.IntRange(0, maxOps).Draw(t, label+".nops")
	for k := 0; k < nops; k++ {
		switch rapid.IntRange(0, 3).Draw(t, label+".op") {
		case 0: // add
			maxID += gpbft.ActorID(rapid.IntRange(1, 3).Draw(t, label+".newid"))
			p := big.NewInt(rapid.Int64Range(1, 1<<30).Draw(t, label+".newpow"))
			if rapid.IntRange(0, 5).Draw(t, label+".newhuge") == 0 {
				p = bigPow2(uint(rapid.IntRange(60, 200).Draw(t, label+".hugebits")))
			}
			m[maxID] = gpbft.PowerEntry{ID: maxID, Power: gpbft.StoragePower{Int: p}, PubKey: vcrypto.PubKey(uint64(maxID))}
			ids = append(ids, maxID)
		case 1: // remove
			if len(m) > 1 {
				id := ids[rapid.IntRange(0, len(ids)-1).Draw(t, label+".rm")]
				if _, ok := m[id]; ok && len(m) > 1 {
					delete(m, id)
				}
			}
		case 2: // re-key
			id := ids[rapid.IntRange(0, len(ids)-1).Draw(t, label+".rk")]
			if e, ok := m[id]; ok {
				e.PubKey = vcrypto.PubKey(uint64(id)*1000003 + uint64(rapid.IntRange(1, 1000).Draw(t, label+".rkn")))
				m[id] = e
			}
		default: // re-weight
			id := ids[rapid.IntRange(0, len(ids)-1).Draw(t, label+".rw")]
			if e, ok := m[id]; ok {
				d := big.NewInt(rapid.Int64Range(-1000, 1000).Draw(t, label+".rwd"))
				np := new(big.Int).Add(e.Power.Int, d)
				if np.Sign() <= 0 {
					np = big.NewInt(1)
				}
				e.Power = gpbft.StoragePower{Int: np}
				m[id] = e
			}
		}
	}
	out := make(gpbft.PowerEntries, 0, len(m))
	for _, e := range m {
		out = append(out, e)
	}
	return vref.Canonical(out)
}

// SignerSet draws signer indices (ascending) into table.
// mode: "all", "minimal" (greedy smallest strong quorum), "random-quorum",
// "under" (a quorum minus its smallest member), "with-zero" (quorum plus a
// zero-scaled member if one exists).
func SignerSet(t *rapid.T, label string, table gpbft.PowerEntries, mode string) []int {
	scaled, total := vref.Scaled(table)
	var nz []int
	var zero []int
	for i, s := range scaled {
		if s > 0 {
			nz = append(nz, i)
		} else {
			zero = append(zero, i)
		}
	}
	minimal := func() []int {
		var sum int64
		var out []int
		for _, i := range nz { // table order is power-descending
			out = append(out, i)
			sum += scaled[i]
			if vref.StrongQuorum(sum, total) {
				break
			}
		}
		return out
	}
	switch mode {
	case "all":
		return append([]int(nil), nz...)
	case "minimal":
		return minimal()
	case "under":
		q := minimal()
		if len(q) > 0 {
			q = q[:len(q)-1]
		}
		return q
	case "with-zero":
		q := append([]int(nil), nz...)
		if len(zero) > 0 {
			q = append(q, zero[rapid.IntRange(0, len(zero)-1).Draw(t, label+".zero")])
		}
		sort.Ints(q)
		return q
	default: // random-quorum: start from all, drop random members while still a quorum
		in := map[int]bool{}
		var sum int64
		for _, i := range nz {
			in[i] = true
			sum += scaled[i]
		}
		tries := rapid.IntRange(0, len(nz)).Draw(t, label+".drops")
		for k := 0; k < tries; k++ {
			i := nz[rapid.IntRange(0, len(nz)-1).Draw(t, label+".drop")]
			if in[i] && vref.StrongQuorum(sum-scaled[i], total) {
				in[i] = false
				sum -= scaled[i]
			}
		}
		var out []int
		for _, i := range nz {
			if in[i] {
				out = append(out, i)
			}
		}
		return out
	}
}

func Bitfield(idx []int) bitfield.BitField {
	u := make([]uint64, len(idx))
	for i, x := range idx {
		u[i] = uint64(x)
	}
	return bitfield.NewFromSet(u)
}

// SignCert (re)signs cert by the given signer indices of table over the exact
// DECIDE payload (reference encoding).
func SignCert(nn gpbft.NetworkName, table gpbft.PowerEntries, c *certs.FinalityCertificate, signers []int) {
	payload := vref.PayloadSigningBytes(nn, c.GPBFTInstance, 0, gpbft.DECIDE_PHASE, c.SupplementalData, c.ECChain)
	c.Signers = Bitfield(signers)
	c.Signature = vcrypto.AggregateFor(table.PublicKeys(), signers, payload)
}

// CertChain is an honestly generated certificate history.
type CertChain struct {
	NN     gpbft.NetworkName
	First  uint64
	Base   *gpbft.TipSet
	Tables []gpbft.PowerEntries // Tables[i] validates Certs[i]; len(Certs)+1 entries
	Certs  []*certs.FinalityCertificate
	Kind   string
}

// GenCertChain draws n certificates over evolving tables along one EC history.
func GenCertChain(t *rapid.T, label string, n int, maxMembers int, tag ...any) *CertChain {
	spec := Entries(t, label+".tbl", 1, maxMembers)
	cc := &CertChain{
		NN:    gpbft.NetworkName(rapid.SampledFrom([]string{"vnet", "vnet/2", "other"}).Draw(t, label+".nn")),
		First: rapid.OneOf(rapid.Uint64Range(0, 5), rapid.Uint64Range(1000, 1<<40)).Draw(t, label+".first"),
		Kind:  spec.Kind,
	}
	cur := spec.Entries
	cc.Tables = append(cc.Tables, cur)
	// suffix lengths
	lens := make([]int, n)
	total := 1
	for i := range lens {
		switch rapid.IntRange(0, 9).Draw(t, label+".slmode") {
		case 0:
			lens[i] = 0 // only the base: nothing newly finalized
		case 1:
			lens[i] = rapid.IntRange(1, 127).Draw(t, label+".sl")
		default:
			lens[i] = rapid.IntRange(1, 4).Draw(t, label+".sl")
		}
		total += lens[i]
	}
	hist := Linear(t, label+".ec", total, tag...)
	cc.Base = hist[0]
	pos := 0
	for i := 0; i < n; i++ {
		next := Evolve(t, label+".ev", cur, 3)
		chain := Chain(hist[pos : pos+lens[i]+1]...)
		pos += lens[i]
		c := &certs.FinalityCertificate{
			GPBFTInstance:    cc.First + uint64(i),
			ECChain:          chain,
			SupplementalData: gpbft.SupplementalData{PowerTable: vref.TableCID(next)},
			PowerTableDelta:  vref.MakeDiff(cur, next),
		}
		if rapid.IntRange(0, 2).Draw(t, label+".sdc") == 0 {
			copy(c.SupplementalData.Commitments[:], DetBytes(32, "sdc", i))
		}
		mode := rapid.SampledFrom([]string{"all", "minimal", "random-quorum"}).Draw(t, label+".smode")
		SignCert(cc.NN, cur, c, SignerSet(t, label+".sig", cur, mode))
		cc.Certs = append(cc.Certs, c)
		cur = next
		cc.Tables = append(cc.Tables, cur)
	}
	return cc
}

func CloneDiff(d certs.PowerTableDiff) certs.PowerTableDiff {
	if d == nil {
		return nil
	}
	out := make(certs.PowerTableDiff, len(d))
	for i, x := range d {
		out[i] = certs.PowerTableDelta{ParticipantID: x.ParticipantID, SigningKey: append(gpbft.PubKey(nil), x.SigningKey...)}
		if len(x.SigningKey) == 0 {
			out[i].SigningKey = nil
		}
		if x.PowerDelta.Int != nil {
			out[i].PowerDelta = gpbft.StoragePower{Int: new(big.Int).Set(x.PowerDelta.Int)}
		}
	}
	return out
}

func SignerIndices(bf bitfield.BitField) []int {
	var out []int
	_ = bf.ForEach(func(i uint64) error { out = append(out, int(i)); return nil })
	return out
}

func CloneCert(c *certs.FinalityCertificate) *certs.FinalityCertificate {
	return &certs.FinalityCertificate{
		GPBFTInstance:    c.GPBFTInstance,
		ECChain:          CloneChain(c.ECChain),
		SupplementalData: c.SupplementalData,
		Signers:          Bitfield(SignerIndices(c.Signers)),
		Signature:        append([]byte(nil), c.Signature...),
		PowerTableDelta:  CloneDiff(c.PowerTableDelta),
	}
}

func CloneCerts(cs []*certs.FinalityCertificate) []*certs.FinalityCertificate {
	out := make([]*certs.FinalityCertificate, len(cs))
	for i, c := range cs {
		out[i] = CloneCert(c)
	}
	return out
}

// MutateCerts applies one corruption operator to a deep copy of the chain's
// certificates and returns the new sequence plus the operator's name.
// other is an unrelated history used for splicing (may be nil).
func MutateCerts(t *rapid.T, label string, cc *CertChain, other *CertChain) ([]*certs.FinalityCertificate, string) {
	cs := CloneCerts(cc.Certs)
	n := len(cs)
	if n == 0 {
		return cs, "none"
	}
	k := rapid.IntRange(0, n-1).Draw(t, label+".k")
	c := cs[k]
	table := cc.Tables[k]
	resign := func() {
		SignCert(cc.NN, table, c, SignerSet(t, label+".rs", table, "minimal"))
	}
	maybeResign := func() string {
		if rapid.Bool().Draw(t, label+".resign") {
			resign()
			return "+resigned"
		}
		return ""
	}
	ops := []string{
		"instance+1", "instance-1", "swap", "duplicate", "drop-inner", "truncate",
		"ts-epoch", "ts-key", "ts-cid", "ts-commit", "chain-empty", "chain-nil", "chain-unordered", "chain-overlong", "ts-emptykey", "chain-drop-head", "chain-drop-base",
		"sd-commit", "sd-cid",
		"signers-under", "signers-minimal", "signers-zero-member", "signers-index-len", "signers-empty", "signers-extra",
		"sig-flip", "sig-other-cert", "sig-other-nn", "sig-other-round", "sig-other-phase",
		"delta-drop", "delta-power", "delta-swap", "delta-noop", "delta-dup", "delta-key", "delta-clear",
		"splice",
	}
	op := rapid.SampledFrom(ops).Draw(t, label+".op")
	switch op {
	case "instance+1":
		c.GPBFTInstance++
		op += maybeResign()
	case "instance-1":
		c.GPBFTInstance--
		op += maybeResign()
	case "swap":
		if n >= 2 {
			j := (k + 1) % n
			cs[k], cs[j] = cs[j], cs[k]
		}
	case "duplicate":
		cs = append(cs[:k+1], append([]*certs.FinalityCertificate{CloneCert(c)}, cs[k+1:]...)...)
	case "drop-inner":
		if n >= 2 {
			cs = append(cs[:k], cs[k+1:]...)
		}
	case "truncate":
		cs = cs[:k]
	case "ts-epoch", "ts-key", "ts-cid", "ts-commit":
		if c.ECChain != nil && len(c.ECChain.TipSets) > 0 {
			i := rapid.IntRange(0, len(c.ECChain.TipSets)-1).Draw(t, label+".ts")
			ts := c.ECChain.TipSets[i]
			switch op {
			case "ts-epoch":
				ts.Epoch += int64(rapid.SampledFrom([]int{-1, 1}).Draw(t, label+".de"))
			case "ts-key":
				ts.Key[rapid.IntRange(0, len(ts.Key)-1).Draw(t, label+".kb")] ^= 0x01
			case "ts-cid":
				ts.PowerTable = DetCid("mutcid", k, i)
			default:
				ts.Commitments[rapid.IntRange(0, 31).Draw(t, label+".cb")] ^= 0x80
			}
			op += maybeResign()
		}
	case "chain-empty":
		c.ECChain = &gpbft.ECChain{}
		op += maybeResign()
	case "chain-nil":
		c.ECChain = nil
		op += maybeResign()
	case "chain-unordered":
		if len(c.ECChain.TipSets) >= 2 {
			ts := c.ECChain.TipSets
			ts[len(ts)-1].Epoch = ts[len(ts)-2].Epoch
		}
		op += maybeResign()
	case "chain-overlong":
		base := c.ECChain.TipSets[0]
		ts := []*gpbft.TipSet{base}
		for i := 1; i <= gpbft.ChainMaxLen; i++ {
			ts = append(ts, &gpbft.TipSet{Epoch: base.Epoch + int64(i), Key: DetBytes(8, "long", i), PowerTable: base.PowerTable})
		}
		c.ECChain = &gpbft.ECChain{TipSets: ts}
		resign()
	case "ts-emptykey":
		c.ECChain.TipSets[len(c.ECChain.TipSets)-1].Key = nil
		op += maybeResign()
	case "chain-drop-head":
		if len(c.ECChain.TipSets) >= 2 {
			c.ECChain.TipSets = c.ECChain.TipSets[:len(c.ECChain.TipSets)-1]
		}
		op += maybeResign()
	case "chain-drop-base":
		if len(c.ECChain.TipSets) >= 2 {
			c.ECChain.TipSets = c.ECChain.TipSets[1:]
		}
		op += maybeResign()
	case "sd-commit":
		c.SupplementalData.Commitments[rapid.IntRange(0, 31).Draw(t, label+".sb")] ^= 0x04
		op += maybeResign()
	case "sd-cid":
		c.SupplementalData.PowerTable = DetCid("sdcid", k)
		op += maybeResign()
	case "signers-under":
		SignCert(cc.NN, table, c, SignerSet(t, label+".su", table, "under"))
	case "signers-minimal":
		SignCert(cc.NN, table, c, SignerSet(t, label+".sm", table, "minimal"))
	case "signers-zero-member":
		SignCert(cc.NN, table, c, SignerSet(t, label+".sz", table, "with-zero"))
	case "signers-index-len":
		s := SignerSet(t, label+".sl", table, "all")
		s = append(s, len(table))
		sort.Ints(s)
		// cannot aggregate for an index outside the table: keep the old signature
		c.Signers = Bitfield(s)
	case "signers-empty":
		c.Signers = bitfield.New()
		if rapid.Bool().Draw(t, label+".emptysig") {
			c.Signature = vcrypto.AggregateFor(table.PublicKeys(), nil, vref.PayloadSigningBytes(cc.NN, c.GPBFTInstance, 0, gpbft.DECIDE_PHASE, c.SupplementalData, c.ECChain))
		}
	case "signers-extra":
		// claim more signers than actually signed
		c.Signers = Bitfield(SignerSet(t, label+".sx", table, "all"))
	case "sig-flip":
		if len(c.Signature) > 0 {
			c.Signature[rapid.IntRange(0, len(c.Signature)-1).Draw(t, label+".fb")] ^= 0x10
		}
	case "sig-other-cert":
		if n >= 2 {
			c.Signature = append([]byte(nil), cs[(k+1)%n].Signature...)
		}
	case "sig-other-nn":
		SignCert(cc.NN+"x", table, c, SignerIndices(c.Signers))
	case "sig-other-round", "sig-other-phase":
		round, phase := uint64(0), gpbft.DECIDE_PHASE
		if op == "sig-other-round" {
			round = 1
		} else {
			phase = gpbft.COMMIT_PHASE
		}
		signers := SignerIndices(c.Signers)
		payload := vref.PayloadSigningBytes(cc.NN, c.GPBFTInstance, round, phase, c.SupplementalData, c.ECChain)
		c.Signature = vcrypto.AggregateFor(table.PublicKeys(), signers, payload)
	case "delta-drop":
		if len(c.PowerTableDelta) > 0 {
			i := rapid.IntRange(0, len(c.PowerTableDelta)-1).Draw(t, label+".di")
			c.PowerTableDelta = append(c.PowerTableDelta[:i], c.PowerTableDelta[i+1:]...)
		}
	case "delta-power":
		if len(c.PowerTableDelta) > 0 {
			i := rapid.IntRange(0, len(c.PowerTableDelta)-1).Draw(t, label+".di")
			d := c.PowerTableDelta[i].PowerDelta.Int
			if d == nil {
				d = new(big.Int)
			}
			c.PowerTableDelta[i].PowerDelta = gpbft.StoragePower{Int: new(big.Int).Add(d, big.NewInt(int64(rapid.SampledFrom([]int{-1, 1}).Draw(t, label+".dp"))))}
		}
	case "delta-swap":
		if len(c.PowerTableDelta) >= 2 {
			i := rapid.IntRange(0, len(c.PowerTableDelta)-2).Draw(t, label+".di")
			c.PowerTableDelta[i], c.PowerTableDelta[i+1] = c.PowerTableDelta[i+1], c.PowerTableDelta[i]
		}
	case "delta-noop":
		// an entry that changes nothing for an existing or fresh id
		id := table[rapid.IntRange(0, len(table)-1).Draw(t, label+".nid")].ID
		c.PowerTableDelta = insertDelta(c.PowerTableDelta, certs.PowerTableDelta{ParticipantID: id, PowerDelta: gpbft.StoragePower{Int: new(big.Int)}})
	case "delta-dup":
		if len(c.PowerTableDelta) > 0 {
			i := rapid.IntRange(0, len(c.PowerTableDelta)-1).Draw(t, label+".di")
			dup := CloneDiff(c.PowerTableDelta[i : i+1])[0]
			c.PowerTableDelta = append(c.PowerTableDelta[:i+1], append(certs.PowerTableDiff{dup}, c.PowerTableDelta[i+1:]...)...)
		}
	case "delta-key":
		// re-state an unchanged key for an existing member
		e := table[rapid.IntRange(0, len(table)-1).Draw(t, label+".kid")]
		c.PowerTableDelta = insertDelta(c.PowerTableDelta, certs.PowerTableDelta{ParticipantID: e.ID, PowerDelta: gpbft.StoragePower{Int: big.NewInt(1)}, SigningKey: e.PubKey})
	case "delta-clear":
		c.PowerTableDelta = nil
	case "splice":
		if other != nil && len(other.Certs) > 0 {
			o := CloneCert(other.Certs[rapid.IntRange(0, len(other.Certs)-1).Draw(t, label+".oi")])
			o.GPBFTInstance = c.GPBFTInstance
			if rapid.Bool().Draw(t, label+".splicebase") && o.ECChain != nil && len(o.ECChain.TipSets) > 0 && len(c.ECChain.TipSets) > 0 {
				o.ECChain.TipSets[0] = CloneTipSet(c.ECChain.TipSets[0])
			}
			cs[k] = o
		}
	}
	return cs, op
}

// insertDelta inserts x keeping id order; if the id is already present the
// existing entry is replaced.
func insertDelta(d certs.PowerTableDiff, x certs.PowerTableDelta) certs.PowerTableDiff {
	out := make(certs.PowerTableDiff, 0, len(d)+1)
	done := false
	for _, e := range d {
		if !done && e.ParticipantID >= x.ParticipantID {
			out = append(out, x)
			done = true
			if e.ParticipantID == x.ParticipantID {
				continue
			}
		}
		out = append(out, e)
	}
	if !done {
		out = append(out, x)
	}
	return out
}

// NextCert builds one honest certificate for instance on top of table cur,
// finalising a generated chain that starts at base. It returns the certificate
// and the table in force afterwards.
func NextCert(t *rapid.T, label string, nn gpbft.NetworkName, instance uint64, cur gpbft.PowerEntries, base *gpbft.TipSet, maxDeltaOps int) (*certs.FinalityCertificate, gpbft.PowerEntries) {
	next := Evolve(t, label+".ev", cur, maxDeltaOps)
	n := rapid.IntRange(0, 3).Draw(t, label+".suffix")
	ts := []*gpbft.TipSet{CloneTipSet(base)}
	epoch := base.Epoch
	for i := 0; i < n; i++ {
		epoch += int64(rapid.IntRange(1, 3).Draw(t, label+".gap"))
		ts = append(ts, &gpbft.TipSet{Epoch: epoch, Key: DetBytes(rapid.IntRange(1, 40).Draw(t, label+".kl"), "nc", instance, i), PowerTable: DetCid("ncpt", instance, i)})
	}
	c := &certs.FinalityCertificate{
		GPBFTInstance:    instance,
		ECChain:          &gpbft.ECChain{TipSets: ts},
		SupplementalData: gpbft.SupplementalData{PowerTable: vref.TableCID(next)},
		PowerTableDelta:  vref.MakeDiff(cur, next),
	}
	SignCert(nn, cur, c, SignerSet(t, label+".sig", cur, "minimal"))
	return c, next
}
