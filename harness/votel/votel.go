// Package votel installs an OpenTelemetry MeterProvider whose float gauges call
// back into the harness synchronously. go-f3 creates its instruments through
// the global (delegating) provider at package init; once this provider is
// installed they forward to it. This is an existing observation point of the
// code (no source change): the polling loop records its delay right after
// re-arming its timer.
package votel

import (
	"context"
	"sync"

	"go.opentelemetry.io/otel"
	"go.opentelemetry.io/otel/metric"
	"go.opentelemetry.io/otel/metric/embedded"
	"go.opentelemetry.io/otel/metric/noop"
)

var (
	mu   sync.Mutex
	hook func(name string, v float64)
	once sync.Once
)

// Install sets the global provider (idempotent).
func Install() { once.Do(func() { otel.SetMeterProvider(&provider{}) }) }

// SetHook sets the callback for Float64Gauge.Record (nil to clear).
func SetHook(f func(name string, v float64)) {
	mu.Lock()
	defer mu.Unlock()
	hook = f
}

type provider struct{ noop.MeterProvider }

func (p *provider) Meter(string, ...metric.MeterOption) metric.Meter { return &meter{} }

type meter struct{ noop.Meter }

func (m *meter) Float64Gauge(name string, _ ...metric.Float64GaugeOption) (metric.Float64Gauge, error) {
	return &gauge{name: name}, nil
}

type gauge struct {
	embedded.Float64Gauge
	name string
}

func (g *gauge) Record(_ context.Context, v float64, _ ...metric.RecordOption) {
	mu.Lock()
	f := hook
	mu.Unlock()
	if f != nil {
		f(g.name, v)
	}
}
