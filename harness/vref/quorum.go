// Package vref holds the reference models. They are written from the property
// statements and FIP-0086, not from the code under test.
package vref

import (
	"math/big"
	"sort"

	"github.com/filecoin-project/go-f3/gpbft"
)

// StrongQuorum: part is at least two thirds of whole.
func StrongQuorum(part, whole int64) bool {
	p := new(big.Int).Mul(big.NewInt(part), big.NewInt(3))
	w := new(big.Int).Mul(big.NewInt(whole), big.NewInt(2))
	return p.Cmp(w) >= 0
}

// MoreThanThird: part strictly exceeds one third of whole.
func MoreThanThird(part, whole int64) bool {
	p := new(big.Int).Mul(big.NewInt(part), big.NewInt(3))
	return p.Cmp(big.NewInt(whole)) > 0
}

// Scaled computes floor(65535*p/total) for every entry with math/big.
func Scaled(entries gpbft.PowerEntries) (scaled []int64, total int64) {
	tot := new(big.Int)
	for _, e := range entries {
		tot.Add(tot, e.Power.Int)
	}
	scaled = make([]int64, len(entries))
	for i, e := range entries {
		x := new(big.Int).Mul(e.Power.Int, big.NewInt(0xffff))
		x.Quo(x, tot)
		scaled[i] = x.Int64()
		total += scaled[i]
	}
	return
}

// Canonical returns a copy of entries in canonical order: power descending,
// id ascending.
func Canonical(entries gpbft.PowerEntries) gpbft.PowerEntries {
	cp := make(gpbft.PowerEntries, len(entries))
	copy(cp, entries)
	sort.SliceStable(cp, func(i, j int) bool {
		c := cp[i].Power.Int.Cmp(cp[j].Power.Int)
		if c != 0 {
			return c > 0
		}
		return cp[i].ID < cp[j].ID
	})
	return cp
}
