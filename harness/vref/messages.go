package vref

import (
	"bytes"

	"github.com/filecoin-project/go-f3/gpbft"
	"github.com/filecoin-project/go-f3/verifharness/vcrypto"
)

// Committee facts the reference validator needs.
type Committee struct {
	Entries gpbft.PowerEntries // canonical order
	Beacon  []byte
}

// MsgVerdict of the reference validator.
type MsgVerdict struct {
	Valid  bool
	Reason string
}

func bad(r string) MsgVerdict { return MsgVerdict{false, r} }

func signerIdx(j *gpbft.Justification) ([]uint64, error) {
	var idx []uint64
	err := j.Signers.ForEach(func(i uint64) error { idx = append(idx, i); return nil })
	return idx, err
}

// JustificationValid checks a justification for (phase, round, valueKey)
// expectations against the committee: strong quorum of distinct non-zero
// members, aggregate over the exact payload with the expected value key.
func JustificationValid(nn gpbft.NetworkName, comt Committee, j *gpbft.Justification, expectKey [32]byte) string {
	scaled, total := Scaled(comt.Entries)
	idx, err := signerIdx(j)
	if err != nil {
		return "just-signers-undecodable"
	}
	var sum int64
	mask := make([]int, 0, len(idx))
	for _, i := range idx {
		if i >= uint64(len(comt.Entries)) {
			return "just-signer-out-of-range"
		}
		if scaled[i] == 0 {
			return "just-signer-zero-power"
		}
		sum += scaled[i]
		mask = append(mask, int(i))
	}
	if !StrongQuorum(sum, total) {
		return "just-below-quorum"
	}
	payload := PayloadSigningBytesWithKey(nn, j.Vote.Instance, j.Vote.Round, j.Vote.Phase, j.Vote.SupplementalData, expectKey)
	if !bytes.Equal(vcrypto.AggregateFor(comt.Entries.PublicKeys(), mask, payload), j.Signature) {
		return "just-signature"
	}
	return ""
}

// ValidateMessage is the reference for the protocol validity rules of a full
// message (FIP-0086 message validity): independent of any participant state.
func ValidateMessage(nn gpbft.NetworkName, comt Committee, m *gpbft.GMessage) MsgVerdict {
	return validate(nn, comt, m, nil)
}

// ValidatePartial is the reference for validation with only the announced
// value key (the chain itself unknown).
func ValidatePartial(nn gpbft.NetworkName, comt Committee, m *gpbft.GMessage, key [32]byte) MsgVerdict {
	return validate(nn, comt, m, &key)
}

func validate(nn gpbft.NetworkName, comt Committee, m *gpbft.GMessage, partialKey *[32]byte) MsgVerdict {
	scaled, _ := Scaled(comt.Entries)
	si := -1
	for i, e := range comt.Entries {
		if e.ID == m.Sender {
			si = i
		}
	}
	if si < 0 {
		return bad("sender-unknown")
	}
	if scaled[si] == 0 {
		return bad("sender-zero-power")
	}
	if !ChainWellFormed(m.Vote.Value) {
		return bad("value-malformed")
	}
	var key [32]byte
	if partialKey != nil {
		key = *partialKey
	} else {
		key = ChainKey(m.Vote.Value)
	}
	bottom := key == [32]byte{}
	pk := comt.Entries[si].PubKey
	switch m.Vote.Phase {
	case gpbft.QUALITY_PHASE:
		if m.Vote.Round != 0 {
			return bad("quality-round")
		}
		if bottom {
			return bad("quality-bottom")
		}
	case gpbft.CONVERGE_PHASE:
		if m.Vote.Round == 0 {
			return bad("converge-round0")
		}
		if bottom {
			return bad("converge-bottom")
		}
		if !bytes.Equal(vcrypto.RawSign(pk, VRFInputBytes(nn, comt.Beacon, m.Vote.Instance, m.Vote.Round)), m.Ticket) {
			return bad("ticket")
		}
	case gpbft.DECIDE_PHASE:
		if m.Vote.Round != 0 {
			return bad("decide-round")
		}
		if bottom {
			return bad("decide-bottom")
		}
	case gpbft.PREPARE_PHASE, gpbft.COMMIT_PHASE:
	default:
		return bad("phase")
	}
	payload := PayloadSigningBytesWithKey(nn, m.Vote.Instance, m.Vote.Round, m.Vote.Phase, m.Vote.SupplementalData, key)
	if !bytes.Equal(vcrypto.RawSign(pk, payload), m.Signature) {
		return bad("signature")
	}
	needs := !(m.Vote.Phase == gpbft.QUALITY_PHASE ||
		(m.Vote.Phase == gpbft.PREPARE_PHASE && m.Vote.Round == 0) ||
		(m.Vote.Phase == gpbft.COMMIT_PHASE && bottom))
	j := m.Justification
	if !needs {
		if j != nil {
			return bad("unexpected-justification")
		}
		return MsgVerdict{Valid: true}
	}
	if j == nil {
		return bad("missing-justification")
	}
	if j.Vote.Instance != m.Vote.Instance {
		return bad("just-instance")
	}
	if j.Vote.SupplementalData.Commitments != m.Vote.SupplementalData.Commitments || j.Vote.SupplementalData.PowerTable != m.Vote.SupplementalData.PowerTable {
		return bad("just-supplement")
	}
	if !ChainWellFormed(j.Vote.Value) {
		return bad("just-value-malformed")
	}
	// prescribed (phase, round, value) of the justification
	var expectKey [32]byte
	var expectRound uint64
	anyRound := false
	switch m.Vote.Phase {
	case gpbft.CONVERGE_PHASE, gpbft.PREPARE_PHASE:
		expectRound = m.Vote.Round - 1
		switch j.Vote.Phase {
		case gpbft.COMMIT_PHASE:
			expectKey = [32]byte{}
		case gpbft.PREPARE_PHASE:
			expectKey = key
		default:
			return bad("just-phase")
		}
	case gpbft.COMMIT_PHASE:
		expectRound = m.Vote.Round
		if j.Vote.Phase != gpbft.PREPARE_PHASE {
			return bad("just-phase")
		}
		expectKey = key
	case gpbft.DECIDE_PHASE:
		anyRound = true
		if j.Vote.Phase != gpbft.COMMIT_PHASE {
			return bad("just-phase")
		}
		expectKey = key
	default:
		return bad("just-phase")
	}
	if !anyRound && j.Vote.Round != expectRound {
		return bad("just-round")
	}
	if partialKey == nil {
		if ChainKey(j.Vote.Value) != expectKey {
			return bad("just-value")
		}
	}
	if why := JustificationValid(nn, comt, j, expectKey); why != "" {
		return bad(why)
	}
	return MsgVerdict{Valid: true}
}

// Relevance classes (documented behaviour of the validator's progress filter).
const (
	RelOK          = "ok"
	RelTooOld      = "too-old"
	RelNotRelevant = "not-relevant"
	RelNoCommittee = "no-committee"
)

// Relevance decides whether a message is still relevant for a participant at
// (instance, round, phase) with the given committee look-back: messages for
// the current instance must be QUALITY, DECIDE or of the current/previous or a
// later round (only DECIDE once the participant is in DECIDE); messages of
// future instances up to the look-back; DECIDE of the previous instance.
func Relevance(cur gpbft.Instant, lookback uint64, m *gpbft.GMessage) string {
	inst := m.Vote.Instance
	switch {
	case inst >= cur.ID+lookback:
		return RelNoCommittee
	case inst > cur.ID:
		return RelOK
	case inst+1 == cur.ID && m.Vote.Phase == gpbft.DECIDE_PHASE:
		return RelOK
	case inst == cur.ID:
		if cur.Phase == gpbft.DECIDE_PHASE && m.Vote.Phase != gpbft.DECIDE_PHASE {
			return RelNotRelevant
		}
		if m.Vote.Phase == gpbft.QUALITY_PHASE || m.Vote.Phase == gpbft.DECIDE_PHASE || m.Vote.Round >= cur.Round || m.Vote.Round+1 == cur.Round {
			return RelOK
		}
		return RelNotRelevant
	default:
		return RelTooOld
	}
}
