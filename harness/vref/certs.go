package vref

import (
	"bytes"
	"errors"
	"fmt"
	"math/big"
	"sort"

	"github.com/filecoin-project/go-f3/certs"
	"github.com/filecoin-project/go-f3/gpbft"
	"github.com/filecoin-project/go-f3/verifharness/vcrypto"
	"github.com/ipfs/go-cid"
)

func cborHead(major byte, n uint64) []byte {
	m := major << 5
	switch {
	case n < 24:
		return []byte{m | byte(n)}
	case n < 1<<8:
		return []byte{m | 24, byte(n)}
	case n < 1<<16:
		return []byte{m | 25, byte(n >> 8), byte(n)}
	case n < 1<<32:
		return []byte{m | 26, byte(n >> 24), byte(n >> 16), byte(n >> 8), byte(n)}
	default:
		return []byte{m | 27, byte(n >> 56), byte(n >> 48), byte(n >> 40), byte(n >> 32), byte(n >> 24), byte(n >> 16), byte(n >> 8), byte(n)}
	}
}

// TableCBOR encodes power entries as the array of [id, power, key] tuples
// (power as Filecoin big-int bytes: empty for 0, else sign byte + magnitude).
func TableCBOR(entries gpbft.PowerEntries) []byte {
	var out []byte
	out = append(out, cborHead(4, uint64(len(entries)))...)
	for _, e := range entries {
		out = append(out, 0x83)
		out = append(out, cborHead(0, uint64(e.ID))...)
		var pb []byte
		if e.Power.Int != nil && e.Power.Int.Sign() != 0 {
			sign := byte(0)
			if e.Power.Int.Sign() < 0 {
				sign = 1
			}
			pb = append([]byte{sign}, e.Power.Int.Bytes()...)
		}
		out = append(out, cborHead(2, uint64(len(pb)))...)
		out = append(out, pb...)
		out = append(out, cborHead(2, uint64(len(e.PubKey)))...)
		out = append(out, e.PubKey...)
	}
	return out
}

// TableCID is the dag-cbor/blake2b-256 CID committing to a table.
func TableCID(entries gpbft.PowerEntries) cid.Cid {
	_, c, err := cid.CidFromBytes(CidV1DagCborBlake2b256(TableCBOR(entries)))
	if err != nil {
		panic(err)
	}
	return c
}

func EntriesEq(a, b gpbft.PowerEntries) bool {
	if len(a) != len(b) {
		return false
	}
	for i := range a {
		if a[i].ID != b[i].ID || a[i].Power.Int.Cmp(b[i].Power.Int) != 0 || !bytes.Equal(a[i].PubKey, b[i].PubKey) {
			return false
		}
	}
	return true
}

func CloneEntries(a gpbft.PowerEntries) gpbft.PowerEntries {
	out := make(gpbft.PowerEntries, len(a))
	for i, e := range a {
		out[i] = gpbft.PowerEntry{ID: e.ID, Power: gpbft.StoragePower{Int: new(big.Int).Set(e.Power.Int)}, PubKey: append(gpbft.PubKey(nil), e.PubKey...)}
	}
	return out
}

// MakeDiff is the reference delta between two well-formed tables: one entry
// per participant whose power or key changed, sorted by id; added members carry
// their full power and key, removed ones minus their power.
func MakeDiff(a, b gpbft.PowerEntries) certs.PowerTableDiff {
	am := map[gpbft.ActorID]gpbft.PowerEntry{}
	for _, e := range a {
		am[e.ID] = e
	}
	var d certs.PowerTableDiff
	seen := map[gpbft.ActorID]bool{}
	for _, e := range b {
		seen[e.ID] = true
		if old, ok := am[e.ID]; ok {
			delta := new(big.Int).Sub(e.Power.Int, old.Power.Int)
			var key gpbft.PubKey
			if !bytes.Equal(old.PubKey, e.PubKey) {
				key = e.PubKey
			}
			if delta.Sign() == 0 && len(key) == 0 {
				continue
			}
			d = append(d, certs.PowerTableDelta{ParticipantID: e.ID, PowerDelta: gpbft.StoragePower{Int: delta}, SigningKey: key})
		} else {
			d = append(d, certs.PowerTableDelta{ParticipantID: e.ID, PowerDelta: gpbft.StoragePower{Int: new(big.Int).Set(e.Power.Int)}, SigningKey: e.PubKey})
		}
	}
	for _, e := range a {
		if !seen[e.ID] {
			d = append(d, certs.PowerTableDelta{ParticipantID: e.ID, PowerDelta: gpbft.StoragePower{Int: new(big.Int).Neg(e.Power.Int)}})
		}
	}
	sort.Slice(d, func(i, j int) bool { return d[i].ParticipantID < d[j].ParticipantID })
	return d
}

func DiffEq(a, b certs.PowerTableDiff) bool {
	if len(a) != len(b) {
		return false
	}
	for i := range a {
		ai, bi := a[i].PowerDelta.Int, b[i].PowerDelta.Int
		if ai == nil {
			ai = new(big.Int)
		}
		if bi == nil {
			bi = new(big.Int)
		}
		if a[i].ParticipantID != b[i].ParticipantID || ai.Cmp(bi) != 0 || !bytes.Equal(a[i].SigningKey, b[i].SigningKey) {
			return false
		}
	}
	return true
}

// ApplyDiff is the reference application of one delta. It accepts exactly the
// canonical deltas: strictly ascending ids, no no-op entries, key present only
// when it changes (or the member is new), resulting powers positive (zero
// removes the member, and then no key may be given), new members need positive
// power and a key. The result is in canonical order.
func ApplyDiff(a gpbft.PowerEntries, d certs.PowerTableDiff) (gpbft.PowerEntries, error) {
	m := map[gpbft.ActorID]gpbft.PowerEntry{}
	for _, e := range a {
		m[e.ID] = e
	}
	var last gpbft.ActorID
	for i, x := range d {
		if i > 0 && x.ParticipantID <= last {
			return nil, errors.New("not strictly sorted")
		}
		last = x.ParticipantID
		delta := x.PowerDelta.Int
		if delta == nil {
			delta = new(big.Int)
		}
		if delta.Sign() == 0 && len(x.SigningKey) == 0 {
			return nil, errors.New("no-op entry")
		}
		if old, ok := m[x.ParticipantID]; ok {
			if len(x.SigningKey) > 0 && bytes.Equal(x.SigningKey, old.PubKey) {
				return nil, errors.New("unchanged key")
			}
			np := new(big.Int).Add(old.Power.Int, delta)
			switch np.Sign() {
			case -1:
				return nil, errors.New("negative power")
			case 0:
				if len(x.SigningKey) > 0 {
					return nil, errors.New("key for removed member")
				}
				delete(m, x.ParticipantID)
			default:
				key := old.PubKey
				if len(x.SigningKey) > 0 {
					key = x.SigningKey
				}
				m[x.ParticipantID] = gpbft.PowerEntry{ID: x.ParticipantID, Power: gpbft.StoragePower{Int: np}, PubKey: key}
			}
		} else {
			if delta.Sign() <= 0 {
				return nil, errors.New("new member without positive power")
			}
			if len(x.SigningKey) == 0 {
				return nil, errors.New("new member without key")
			}
			m[x.ParticipantID] = gpbft.PowerEntry{ID: x.ParticipantID, Power: gpbft.StoragePower{Int: new(big.Int).Set(delta)}, PubKey: x.SigningKey}
		}
	}
	out := make(gpbft.PowerEntries, 0, len(m))
	for _, e := range m {
		out = append(out, e)
	}
	return Canonical(out), nil
}

// CertResult is what validation of a certificate sequence must report.
type CertResult struct {
	ValidPrefix  int
	NextInstance uint64
	Suffixes     []*gpbft.TipSet // concatenated suffixes of the valid prefix
	Table        gpbft.PowerEntries
	Reason       string // why the first invalid certificate is invalid
}

func bitfieldIndices(c *certs.FinalityCertificate) ([]uint64, error) {
	var idx []uint64
	err := c.Signers.ForEach(func(i uint64) error { idx = append(idx, i); return nil })
	return idx, err
}

// CertValidAgainst decides one certificate against the table in force.
func CertValidAgainst(nn gpbft.NetworkName, table gpbft.PowerEntries, c *certs.FinalityCertificate) (gpbft.PowerEntries, string) {
	if !ChainWellFormed(c.ECChain) {
		return nil, "chain-malformed"
	}
	if c.ECChain == nil || len(c.ECChain.TipSets) == 0 {
		return nil, "chain-empty"
	}
	scaled, total := Scaled(table)
	idx, err := bitfieldIndices(c)
	if err != nil {
		return nil, "signers-undecodable"
	}
	var sum int64
	mask := make([]int, 0, len(idx))
	for _, i := range idx {
		if i >= uint64(len(table)) {
			return nil, "signer-out-of-range"
		}
		if scaled[i] == 0 {
			return nil, "signer-zero-power"
		}
		sum += scaled[i]
		mask = append(mask, int(i))
	}
	if !StrongQuorum(sum, total) {
		return nil, "signers-below-quorum"
	}
	payload := PayloadSigningBytes(nn, c.GPBFTInstance, 0, gpbft.DECIDE_PHASE, c.SupplementalData, c.ECChain)
	keys := table.PublicKeys()
	if !bytes.Equal(vcrypto.AggregateFor(keys, mask, payload), c.Signature) {
		return nil, "signature"
	}
	next, err := ApplyDiff(table, c.PowerTableDelta)
	if err != nil {
		return nil, "delta-" + err.Error()
	}
	if len(next) > 8192 {
		return nil, "table-too-large"
	}
	for _, e := range next {
		if len(e.PubKey) > 48 {
			return nil, "key-too-long"
		}
	}
	if TableCID(next) != c.SupplementalData.PowerTable {
		return nil, "table-cid"
	}
	return next, ""
}

// ValidateCerts is the reference for certs.ValidateFinalityCertificates.
func ValidateCerts(nn gpbft.NetworkName, table gpbft.PowerEntries, next uint64, base *gpbft.TipSet, cs []*certs.FinalityCertificate) CertResult {
	res := CertResult{NextInstance: next, Table: table}
	for _, c := range cs {
		if c.GPBFTInstance != res.NextInstance {
			res.Reason = fmt.Sprintf("instance %d != %d", c.GPBFTInstance, res.NextInstance)
			return res
		}
		if ChainWellFormed(c.ECChain) && c.ECChain != nil && len(c.ECChain.TipSets) > 0 && base != nil && !TipSetEq(base, c.ECChain.TipSets[0]) {
			res.Reason = "base-unlinked"
			return res
		}
		nt, why := CertValidAgainst(nn, res.Table, c)
		if why != "" {
			res.Reason = why
			return res
		}
		res.ValidPrefix++
		res.NextInstance++
		res.Suffixes = append(res.Suffixes, c.ECChain.TipSets[1:]...)
		res.Table = nt
		base = c.ECChain.TipSets[len(c.ECChain.TipSets)-1]
	}
	return res
}
