package vref

import (
	"encoding/binary"
	"math/bits"

	"github.com/filecoin-project/go-f3/gpbft"
	"golang.org/x/crypto/blake2b"
	"golang.org/x/crypto/sha3"
)

// Independent re-implementation of the signing encodings (FIP-0086 /
// documented layout): used as the oracle for "signed over the exact payload"
// and for chain keys. Nothing here calls go-f3 marshalling code.

func keccak(parts ...[]byte) (out [32]byte) {
	h := sha3.NewLegacyKeccak256()
	for _, p := range parts {
		h.Write(p)
	}
	copy(out[:], h.Sum(nil))
	return
}

// MerkleRoot: leaves hashed with marker 1, inner nodes with marker 0, missing
// right subtrees are the zero digest; bottom-up formulation.
func MerkleRoot(values [][]byte) [32]byte {
	if len(values) == 0 {
		return [32]byte{}
	}
	level := make([][32]byte, len(values))
	for i, v := range values {
		level[i] = keccak([]byte{1}, v)
	}
	depth := bits.Len(uint(len(values) - 1))
	for d := 0; d < depth; d++ {
		next := make([][32]byte, 0, (len(level)+1)/2)
		for i := 0; i < len(level); i += 2 {
			var right [32]byte
			if i+1 < len(level) {
				right = level[i+1]
			}
			next = append(next, keccak([]byte{0}, level[i][:], right[:]))
		}
		level = next
	}
	return level[0]
}

func cborByteString(b []byte) []byte {
	n := uint64(len(b))
	var hdr []byte
	switch {
	case n < 24:
		hdr = []byte{0x40 | byte(n)}
	case n < 1<<8:
		hdr = []byte{0x58, byte(n)}
	case n < 1<<16:
		hdr = []byte{0x59, byte(n >> 8), byte(n)}
	default:
		hdr = []byte{0x5a, byte(n >> 24), byte(n >> 16), byte(n >> 8), byte(n)}
	}
	return append(hdr, b...)
}

// CidV1DagCborBlake2b256 returns the bytes of the CID of data.
func CidV1DagCborBlake2b256(data []byte) []byte {
	sum := blake2b.Sum256(data)
	// version 1, codec dag-cbor 0x71, multihash blake2b-256 = 0xb220 (varint a0 e4 02), length 32
	return append([]byte{0x01, 0x71, 0xa0, 0xe4, 0x02, 0x20}, sum[:]...)
}

// TipSetSigningBytes: epoch || commitments || cid(cbor(key)) || powertable cid.
func TipSetSigningBytes(ts *gpbft.TipSet) []byte {
	var out []byte
	out = binary.BigEndian.AppendUint64(out, uint64(ts.Epoch))
	out = append(out, ts.Commitments[:]...)
	out = append(out, CidV1DagCborBlake2b256(cborByteString(ts.Key))...)
	out = append(out, ts.PowerTable.Bytes()...)
	return out
}

// ChainKey: merkle root over the tipset encodings; zero for the empty chain.
func ChainKey(c *gpbft.ECChain) [32]byte {
	if c == nil || len(c.TipSets) == 0 {
		return [32]byte{}
	}
	vals := make([][]byte, len(c.TipSets))
	for i, ts := range c.TipSets {
		vals[i] = TipSetSigningBytes(ts)
	}
	return MerkleRoot(vals)
}

// PayloadSigningBytes: "GPBFT:" nn ":" phase round instance commitments key ptcid.
func PayloadSigningBytes(nn gpbft.NetworkName, instance, round uint64, phase gpbft.Phase, sd gpbft.SupplementalData, value *gpbft.ECChain) []byte {
	return PayloadSigningBytesWithKey(nn, instance, round, phase, sd, ChainKey(value))
}

func PayloadSigningBytesWithKey(nn gpbft.NetworkName, instance, round uint64, phase gpbft.Phase, sd gpbft.SupplementalData, key [32]byte) []byte {
	out := []byte("GPBFT:")
	out = append(out, []byte(nn)...)
	out = append(out, ':')
	out = append(out, byte(phase))
	out = binary.BigEndian.AppendUint64(out, round)
	out = binary.BigEndian.AppendUint64(out, instance)
	out = append(out, sd.Commitments[:]...)
	out = append(out, key[:]...)
	out = append(out, sd.PowerTable.Bytes()...)
	return out
}

// VRFInputBytes: "VRF:" nn ":" beacon ":" instance round.
func VRFInputBytes(nn gpbft.NetworkName, beacon []byte, instance, round uint64) []byte {
	out := []byte("VRF:")
	out = append(out, []byte(nn)...)
	out = append(out, ':')
	out = append(out, beacon...)
	out = append(out, ':')
	out = binary.BigEndian.AppendUint64(out, instance)
	out = binary.BigEndian.AppendUint64(out, round)
	return out
}

// ChainWellFormed mirrors the documented chain validity: every tipset has a
// non-empty key of at most 760 bytes and a defined power-table CID of at most
// 38 bytes; epochs are non-negative and strictly increasing; at most 128
// tipsets. The empty chain is well-formed ("bottom").
func ChainWellFormed(c *gpbft.ECChain) bool {
	if c == nil || len(c.TipSets) == 0 {
		return true
	}
	if len(c.TipSets) > 128 {
		return false
	}
	last := int64(-1)
	for _, ts := range c.TipSets {
		if ts == nil || len(ts.Key) == 0 || len(ts.Key) > 760 {
			return false
		}
		if !ts.PowerTable.Defined() || ts.PowerTable.ByteLen() > 38 {
			return false
		}
		if ts.Epoch <= last {
			return false
		}
		last = ts.Epoch
	}
	return true
}

func TipSetEq(a, b *gpbft.TipSet) bool {
	if a == nil || b == nil {
		return a == b
	}
	return a.Epoch == b.Epoch && string(a.Key) == string(b.Key) && a.PowerTable == b.PowerTable && a.Commitments == b.Commitments
}

func ChainEq(a, b *gpbft.ECChain) bool {
	la, lb := 0, 0
	if a != nil {
		la = len(a.TipSets)
	}
	if b != nil {
		lb = len(b.TipSets)
	}
	if la != lb {
		return false
	}
	for i := 0; i < la; i++ {
		if !TipSetEq(a.TipSets[i], b.TipSets[i]) {
			return false
		}
	}
	return true
}

// IsPrefix reports whether p is a (non-empty) prefix of c.
func IsPrefix(p, c *gpbft.ECChain) bool {
	if p == nil || c == nil || len(p.TipSets) == 0 || len(p.TipSets) > len(c.TipSets) {
		return false
	}
	for i := range p.TipSets {
		if !TipSetEq(p.TipSets[i], c.TipSets[i]) {
			return false
		}
	}
	return true
}
