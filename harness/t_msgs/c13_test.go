package t_msgs

import (
	"context"
	"fmt"
	"testing"

	"github.com/filecoin-project/go-f3/gpbft"
	"github.com/filecoin-project/go-f3/pmsg"
	"github.com/filecoin-project/go-f3/verifharness/vcrypto"
	"github.com/filecoin-project/go-f3/verifharness/vev"
	"github.com/filecoin-project/go-f3/verifharness/vgen"
	"github.com/filecoin-project/go-f3/verifharness/vref"
	"pgregory.net/rapid"
)

const c13 = "C13"
const c13rule = "generated: full messages (valid of every shape, or corrupted by one operator) stripped by the production ToPartialGMessage (or left un-stripped), an announced key (as produced / zero / key of another chain / random, optionally re-signed by the sender over that key), " +
	"a completing chain (original / prefix / sibling / foreign / bottom), in generated order on one participant whose cache is shared by both paths; oracle: two-stage (partial validate, production completion, full validate) accepts iff key==Key(chain) and one-shot validation of the completed message accepts on a fresh participant; strip+complete round trip. " +
	"Non-trivial = justified message, or mismatching key/chain, or an item derived from an earlier item of the same history (cache-warm); distinct by digest of (message bytes, key, chain key, position)"

var nilPMM *pmsg.PartialMessageManager

type c13item struct {
	full  *gpbft.GMessage // the full message the item derives from
	op    string
	shape string
	pm    *gpbft.PartialGMessage
	chain *gpbft.ECChain
	keyOp string
	chOp  string
	strip bool
}

func makeItem(t *rapid.T, label string, w *vgen.MsgWorld, d drawnMsg, forceRekey bool) c13item {
	it := c13item{full: d.msg, op: d.op, shape: d.shape, strip: true}
	g := vgen.CloneMsg(d.msg)
	inst := g.Vote.Instance
	orig := vgen.CloneChain(g.Vote.Value)
	pm, err := nilPMM.ToPartialGMessage(g)
	if err != nil {
		t.Fatalf("HARNESS: ToPartialGMessage: %v", err)
	}
	if !forceRekey && rapid.IntRange(0, 7).Draw(t, label+".unstripped") == 0 {
		// as it could arrive from the wire: value and/or justification value left in place
		it.strip = false
		g2 := vgen.CloneMsg(d.msg)
		pm = &gpbft.PartialGMessage{GMessage: g2, VoteValueKey: pm.VoteValueKey}
		if rapid.Bool().Draw(t, label+".stripvalue") {
			g2.Vote.Value = &gpbft.ECChain{}
		}
	}
	vals := w.Values[inst]
	pick := func(l string) *gpbft.ECChain {
		if len(vals) == 0 {
			return &gpbft.ECChain{}
		}
		return vgen.CloneChain(vals[rapid.IntRange(0, len(vals)-1).Draw(t, l)])
	}
	if pm.Justification != nil && !forceRekey && rapid.IntRange(0, 3).Draw(t, label+".justvalue") == 0 {
		// a partial form whose justification still names a value: the vote's own value, another
		// one, or bottom - whatever the aggregate was really made over (a sender is free to put
		// anything there; only what full validation later compares may decide)
		it.strip = false
		cp := clonePartial(pm)
		switch rapid.IntRange(0, 2).Draw(t, label+".justvaluekind") {
		case 0:
			cp.Justification.Vote.Value = vgen.CloneChain(orig)
		case 1:
			cp.Justification.Vote.Value = pick(label + ".jv")
		default:
			cp.Justification.Vote.Value = &gpbft.ECChain{}
		}
		pm = cp
	}
	// announced key
	keyOps := []string{"as-produced", "as-produced", "as-produced", "zero", "other-chain", "random"}
	it.keyOp = rapid.SampledFrom(keyOps).Draw(t, label+".keyop")
	if forceRekey {
		it.keyOp = "other-chain"
	}
	switch it.keyOp {
	case "zero":
		pm.VoteValueKey = gpbft.ECChainKey{}
	case "other-chain":
		pm.VoteValueKey = gpbft.ECChainKey(vref.ChainKey(pick(label + ".kc")))
	case "random":
		copy(pm.VoteValueKey[:], vgen.DetBytes(32, "rk", rapid.IntRange(0, 3).Draw(t, label+".rk")))
	}
	if it.keyOp != "as-produced" && (forceRekey || rapid.Bool().Draw(t, label+".keyresign")) {
		// the (Byzantine) sender signs its own message over the announced key
		if c, ok := w.Committees[inst]; ok {
			for _, e := range c.Entries {
				if e.ID == pm.Sender {
					pm.Signature = vcrypto.RawSign(e.PubKey, vref.PayloadSigningBytesWithKey(w.NN, pm.Vote.Instance, pm.Vote.Round, pm.Vote.Phase, pm.Vote.SupplementalData, [32]byte(pm.VoteValueKey)))
				}
			}
		}
		it.keyOp += "+resigned"
	}
	// completing chain
	chOps := []string{"original", "original", "original", "matching-key", "prefix", "other", "foreign", "bottom"}
	it.chOp = rapid.SampledFrom(chOps).Draw(t, label+".chop")
	switch it.chOp {
	case "original":
		it.chain = orig
	case "matching-key":
		// the chain whose key was announced, if it is one of the world's values
		it.chain = orig
		for _, v := range vals {
			if gpbft.ECChainKey(vref.ChainKey(v)) == pm.VoteValueKey {
				it.chain = vgen.CloneChain(v)
			}
		}
	case "prefix":
		it.chain = orig
		if orig.Len() > 1 {
			it.chain = vgen.CloneChain(orig.Prefix(rapid.IntRange(0, orig.Len()-2).Draw(t, label+".pl")))
		}
	case "other":
		it.chain = pick(label + ".oc")
	case "foreign":
		it.chain = pick(label + ".fc")
		if it.chain.Len() > 0 {
			it.chain.TipSets[0].Epoch += 1000
			for i := 1; i < it.chain.Len(); i++ {
				it.chain.TipSets[i].Epoch += 1000
			}
		}
	default:
		it.chain = &gpbft.ECChain{}
	}
	it.pm = pm
	return it
}

func clonePartial(pm *gpbft.PartialGMessage) *gpbft.PartialGMessage {
	return &gpbft.PartialGMessage{GMessage: vgen.CloneMsg(pm.GMessage), VoteValueKey: pm.VoteValueKey}
}

// TestC13TwoStage: histories of (message, key, chain) items on one participant.
func TestC13TwoStage(t *testing.T) {
	rapid.Check(t, func(t *rapid.T) {
		first := uint64(rapid.IntRange(1, 50).Draw(t, "first"))
		n := rapid.IntRange(1, 3).Draw(t, "ninst")
		w := vgen.GenMsgWorld(t, "w", first, n, 8)
		lookback := uint64(rapid.IntRange(1, 4).Draw(t, "lookback"))
		cur := drawProgress(t, "cur", first, n)
		shared := newParticipant(t, w, lookback, rapid.IntRange(1, 3).Draw(t, "ci"), rapid.IntRange(1, 6).Draw(t, "cm"))
		shared.VerifSetProgress(cur.ID, cur.Round, cur.Phase)
		steps := rapid.IntRange(1, 12).Draw(t, "steps")
		var pool []drawnMsg
		var trace []string
		for s := 0; s < steps; s++ {
			var it c13item
			derived := false
			if len(pool) > 0 && rapid.IntRange(0, 2).Draw(t, "derive") == 0 {
				src := pool[rapid.IntRange(0, len(pool)-1).Draw(t, "src")]
				it = makeItem(t, fmt.Sprintf("it%d", s), w, src, rapid.Bool().Draw(t, "rekey"))
				derived = true
			} else {
				d := drawMsg(t, fmt.Sprintf("m%d", s), w, first, n)
				pool = append(pool, d)
				it = makeItem(t, fmt.Sprintf("it%d", s), w, d, false)
			}
			// optionally warm the full-validation cache first with the original full message
			if rapid.IntRange(0, 3).Draw(t, "warmfull") == 0 {
				_, _ = shared.ValidateMessage(context.Background(), vgen.CloneMsg(it.full))
			}
			// ---- two-stage on the shared participant
			pm := clonePartial(it.pm)
			twoStage := "accept"
			pv, err := shared.PartiallyValidateMessage(context.Background(), pm)
			stage := ""
			if err != nil {
				twoStage = classify(err)
				stage = "partial"
			} else {
				pm.Vote.Value = vgen.CloneChain(it.chain)
				pmsg.VerifInferJustificationVoteValue(pm)
				if _, err = shared.FullyValidateMessage(context.Background(), pv); err != nil {
					twoStage = classify(err)
					stage = "full"
				}
			}
			if twoStage == "panic" {
				vev.Fail(t, c13, "C13/two-stage/panic", "two-stage validation panicked: %v", err)
			}
			// ---- one-shot on a fresh participant for the completed message
			completed := clonePartial(it.pm)
			completed.Vote.Value = vgen.CloneChain(it.chain)
			pmsg.VerifInferJustificationVoteValue(completed)
			fresh := newParticipant(t, w, lookback, 0, 0)
			fresh.VerifSetProgress(cur.ID, cur.Round, cur.Phase)
			_, oerr := fresh.ValidateMessage(context.Background(), completed.GMessage)
			oneShot := classify(oerr)
			keyMatches := [32]byte(it.pm.VoteValueKey) == vref.ChainKey(it.chain)
			wantAccept := keyMatches && oneShot == "accept"
			if twoStage == "accept" && !wantAccept {
				vev.Fail(t, c13, "C13/two-stage/unsound-accept", "two-stage accepted but keyMatches=%v one-shot=%s (%v); op=%s key=%s chain=%s stripped=%v msg=%v trace=%v", keyMatches, oneShot, oerr, it.op, it.keyOp, it.chOp, it.strip, describeMsg(completed.GMessage), trace)
			}
			if it.strip && wantAccept && twoStage != "accept" {
				vev.Fail(t, c13, "C13/two-stage/incomplete", "two-stage rejected at %s stage (%s: %v) although key matches and one-shot accepts; op=%s key=%s chain=%s msg=%v trace=%v", stage, twoStage, err, it.op, it.keyOp, it.chOp, describeMsg(completed.GMessage), trace)
			}
			// cross-check the partial verdict itself with the reference (sound direction)
			if c, ok := w.Committees[it.pm.Vote.Instance]; ok && stage != "partial" {
				if v := vref.ValidatePartial(w.NN, c, it.pm.GMessage, [32]byte(it.pm.VoteValueKey)); !v.Valid {
					vev.Fail(t, c13, "C13/partial/unsound-accept", "partial validation accepted a message the reference rejects (%s); op=%s key=%s trace=%v", v.Reason, it.op, it.keyOp, trace)
				}
			}
			trace = append(trace, fmt.Sprintf("%s|%s|%s|%v->%s/%s", it.op, it.keyOp, it.chOp, it.strip, twoStage, oneShot))
			nt := it.pm.Justification != nil || !keyMatches || derived
			vev.Case(c13, vev.Digest(msgBytes(it.pm.GMessage), it.pm.VoteValueKey[:], vref.ChainKey(it.chain), s, fmt.Sprint(cur)), nt,
				"key:"+it.keyOp, "chain:"+it.chOp, "two-stage:"+twoStage, "one-shot:"+oneShot, fmt.Sprintf("key-matches:%v", keyMatches), fmt.Sprintf("derived:%v", derived), fmt.Sprintf("stripped:%v", it.strip), "op:"+it.op)
			vev.Sample(c13, func() any {
				return map[string]any{"kind": "two-stage", "step": s, "operator": it.op, "key": it.keyOp, "chain": it.chOp, "stripped": it.strip, "message": describeMsg(it.pm.GMessage), "two_stage": twoStage, "one_shot_on_completed": oneShot, "key_matches_chain": keyMatches}
			})
		}
	})
}

// TestC13RoundTrip: strip + complete reproduces valid messages.
func TestC13RoundTrip(t *testing.T) {
	rapid.Check(t, func(t *rapid.T) {
		first := uint64(rapid.IntRange(1, 50).Draw(t, "first"))
		w := vgen.GenMsgWorld(t, "w", first, 1, 8)
		g, spec := w.GenValidMsg(t, "m", first, 3)
		orig := vgen.CloneMsg(g)
		pm, err := nilPMM.ToPartialGMessage(g)
		if err != nil {
			vev.Fail(t, c13, "C13/roundtrip/strip-error", "ToPartialGMessage: %v", err)
		}
		if !vref.ChainEq(g.Vote.Value, orig.Vote.Value) || (g.Justification != nil && !vref.ChainEq(g.Justification.Vote.Value, orig.Justification.Vote.Value)) {
			vev.Fail(t, c13, "C13/roundtrip/strip-modifies-input", "stripping modified the original message")
		}
		if pm.Vote.Value.Len() != 0 || (pm.Justification != nil && pm.Justification.Vote.Value.Len() != 0) {
			vev.Fail(t, c13, "C13/roundtrip/not-stripped", "partial form still carries a chain")
		}
		if [32]byte(pm.VoteValueKey) != vref.ChainKey(orig.Vote.Value) {
			vev.Fail(t, c13, "C13/roundtrip/key", "announced key is not the key of the value")
		}
		pm.Vote.Value = vgen.CloneChain(orig.Vote.Value)
		pmsg.VerifInferJustificationVoteValue(pm)
		c := pm.GMessage
		if c.Sender != orig.Sender || c.Vote.Instance != orig.Vote.Instance || c.Vote.Round != orig.Vote.Round || c.Vote.Phase != orig.Vote.Phase ||
			!c.Vote.SupplementalData.Eq(&orig.Vote.SupplementalData) || !vref.ChainEq(c.Vote.Value, orig.Vote.Value) ||
			string(c.Signature) != string(orig.Signature) || string(c.Ticket) != string(orig.Ticket) || (c.Justification == nil) != (orig.Justification == nil) {
			vev.Fail(t, c13, "C13/roundtrip/message-differs", "completed message differs from original (%s)", spec.Shape)
		}
		if c.Justification != nil {
			a, b := c.Justification, orig.Justification
			if a.Vote.Instance != b.Vote.Instance || a.Vote.Round != b.Vote.Round || a.Vote.Phase != b.Vote.Phase || !a.Vote.SupplementalData.Eq(&b.Vote.SupplementalData) ||
				!vref.ChainEq(a.Vote.Value, b.Vote.Value) || string(a.Signature) != string(b.Signature) || fmt.Sprint(vgen.SignerIndices(a.Signers)) != fmt.Sprint(vgen.SignerIndices(b.Signers)) {
				vev.Fail(t, c13, "C13/roundtrip/justification-differs", "completed justification differs from original (%s)", spec.Shape)
			}
		}
		if string(msgBytes(c)) != string(msgBytes(orig)) {
			vev.Fail(t, c13, "C13/roundtrip/bytes-differ", "completed message encodes differently (%s)", spec.Shape)
		}
		vev.Case(c13, vev.Digest("rt", msgBytes(orig)), orig.Justification != nil, "roundtrip", "roundtrip-shape:"+spec.Shape)
	})
}
