package t_msgs

import (
	"context"
	"math"
	"math/big"
	"testing"

	"github.com/filecoin-project/go-f3/gpbft"
	"github.com/filecoin-project/go-f3/verifharness/vcrypto"
	"github.com/filecoin-project/go-f3/verifharness/vev"
	"github.com/filecoin-project/go-f3/verifharness/vgen"
	"github.com/filecoin-project/go-f3/verifharness/vref"
)

// Plain regression cases (no generator involved) for confirmed root causes.

func fixedWorld() *vgen.MsgWorld {
	entries := gpbft.PowerEntries{
		{ID: 1, Power: gpbft.StoragePower{Int: big.NewInt(3)}, PubKey: vcrypto.PubKey(1)},
		{ID: 2, Power: gpbft.StoragePower{Int: big.NewInt(2)}, PubKey: vcrypto.PubKey(2)},
		{ID: 3, Power: gpbft.StoragePower{Int: big.NewInt(1)}, PubKey: vcrypto.PubKey(3)},
	}
	base := &gpbft.TipSet{Epoch: 10, Key: []byte("base"), PowerTable: vgen.DetCid("b")}
	t1 := &gpbft.TipSet{Epoch: 11, Key: []byte("t1"), PowerTable: vgen.DetCid("t1")}
	return &vgen.MsgWorld{
		NN:         "vnet",
		Committees: map[uint64]vref.Committee{1: {Entries: entries, Beacon: []byte("beacon")}},
		Supp:       map[uint64]gpbft.SupplementalData{1: {PowerTable: vgen.DetCid("sd")}},
		Values:     map[uint64][]*gpbft.ECChain{1: {vgen.Chain(base), vgen.Chain(base, t1)}},
	}
}

// COMMIT at round MaxUint64 justified by a PREPARE quorum of round 0: the
// justification's round is not the prescribed one (found by TestC05Messages,
// operator round-1+resigned on a round-0 COMMIT; fixed in /repo).
func TestC05RegressionCommitMaxRoundJustification(t *testing.T) {
	w := fixedWorld()
	v := w.Values[1][1]
	m := &gpbft.GMessage{Vote: gpbft.Payload{Instance: 1, Round: math.MaxUint64, Phase: gpbft.COMMIT_PHASE, SupplementalData: w.Supp[1], Value: vgen.CloneChain(v)}}
	m.Justification = w.Justify(1, 0, gpbft.PREPARE_PHASE, v, []int{0, 1})
	w.Sign(m, 0)
	if vref.ValidateMessage(w.NN, w.Committees[1], m).Valid {
		t.Fatalf("HARNESS: reference accepts the regression case")
	}
	p := newParticipant(t, w, 5, 0, 0)
	p.VerifSetProgress(1, 0, gpbft.QUALITY_PHASE)
	if _, err := p.ValidateMessage(context.Background(), m); err == nil {
		vev.Fail(t, c05, "C05/validate/unsound-accept", "COMMIT at round MaxUint64 with a PREPARE justification of round 0 was accepted")
	}
	vev.Case(c05, vev.Digest("regr-commit-maxround"), true, "regression")
}
