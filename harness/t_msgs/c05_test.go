package t_msgs

import (
	"bytes"
	"context"
	"errors"
	"fmt"
	"sync"
	"testing"

	"github.com/filecoin-project/go-f3/gpbft"
	"github.com/filecoin-project/go-f3/verifharness/vev"
	"github.com/filecoin-project/go-f3/verifharness/vgen"
	"github.com/filecoin-project/go-f3/verifharness/vhost"
	"github.com/filecoin-project/go-f3/verifharness/vref"
	"pgregory.net/rapid"
)

const c05 = "C05"

func TestMain(m *testing.M) {
	vev.Rule(c05, "generated: valid messages of every shape (QUALITY, PREPARE r=0 / r>0 with either justification, CONVERGE with either justification and ticket, COMMIT value/bottom, DECIDE) over generated committees (dust/whale/huge tables), "+
		"one of ~36 field-level corruption or recombination operators (optionally re-signed by the sender / re-aggregated), a generated participant progress (instance, round, phase) and committee look-back; "+
		"oracle = independent reference validator + documented relevance window; histories: the same message set presented to one long-lived participant with tiny caches vs a fresh participant per message; concurrent validation vs sequential. "+
		"Non-trivial = message that needs a justification, or any corrupted message, or a history containing a repeat of an accepted message followed by a forged variant; distinct by digest of (message bytes, progress, look-back)")
	vev.Rule(c13, c13rule)
	vev.Main(m)
}

func classify(err error) string {
	switch {
	case err == nil:
		return "accept"
	case errors.Is(err, gpbft.ErrValidationInvalid):
		return "invalid"
	case errors.Is(err, gpbft.ErrValidationTooOld):
		return "too-old"
	case errors.Is(err, gpbft.ErrValidationNotRelevant):
		return "not-relevant"
	case errors.Is(err, gpbft.ErrValidationNoCommittee):
		return "no-committee"
	default:
		var pe *gpbft.PanicError
		if errors.As(err, &pe) {
			return "panic"
		}
		return "other-error"
	}
}

func newParticipant(t vev.FailTB, w *vgen.MsgWorld, lookback uint64, cachedInstances, cachedMsgs int) *gpbft.Participant {
	h := &vhost.Static{NN: w.NN, Committee: w.GpbftCommittee}
	opts := []gpbft.Option{gpbft.WithCommitteeLookback(lookback)}
	if cachedInstances > 0 {
		opts = append(opts, gpbft.WithMaxCachedInstances(cachedInstances), gpbft.WithMaxCachedMessagesPerInstance(cachedMsgs))
	}
	p, err := gpbft.NewParticipant(h, opts...)
	if err != nil {
		t.Fatalf("HARNESS: NewParticipant: %v", err)
	}
	return p
}

func msgBytes(m *gpbft.GMessage) []byte {
	var buf bytes.Buffer
	if err := m.MarshalCBOR(&buf); err != nil {
		return []byte(fmt.Sprintf("unmarshalable:%v:%v:%d:%d:%d", err, m.Sender, m.Vote.Instance, m.Vote.Round, m.Vote.Phase))
	}
	return buf.Bytes()
}

func describeMsg(m *gpbft.GMessage) map[string]any {
	d := map[string]any{"sender": m.Sender, "instance": m.Vote.Instance, "round": m.Vote.Round, "phase": m.Vote.Phase.String(), "value_len": m.Vote.Value.Len()}
	if m.Justification != nil {
		d["justification"] = map[string]any{"phase": m.Justification.Vote.Phase.String(), "round": m.Justification.Vote.Round, "value_len": m.Justification.Vote.Value.Len(), "signers": vgen.SignerIndices(m.Justification.Signers)}
	}
	return d
}

type drawnMsg struct {
	msg   *gpbft.GMessage
	op    string
	shape string
}

func drawMsg(t *rapid.T, label string, w *vgen.MsgWorld, first uint64, n int) drawnMsg {
	inst := first + uint64(rapid.IntRange(0, n-1).Draw(t, label+".inst"))
	m, spec := w.GenValidMsg(t, label, inst, 3)
	op := "valid"
	if rapid.IntRange(0, 3).Draw(t, label+".corrupt") > 0 {
		m, op = w.MutateMsg(t, label+".mut", m)
	}
	return drawnMsg{m, op, spec.Shape}
}

func drawProgress(t *rapid.T, label string, first uint64, n int) gpbft.Instant {
	id := first + uint64(rapid.IntRange(-1, n).Draw(t, label+".inst")+1) - 1
	return gpbft.Instant{
		ID:    id,
		Round: uint64(rapid.IntRange(0, 5).Draw(t, label+".round")),
		Phase: gpbft.Phase(rapid.IntRange(0, 5).Draw(t, label+".phase")),
	}
}

// refVerdict returns (valid, relevance) for m.
func refVerdict(w *vgen.MsgWorld, cur gpbft.Instant, lookback uint64, m *gpbft.GMessage) (vref.MsgVerdict, string) {
	rel := vref.Relevance(cur, lookback, m)
	c, ok := w.Committees[m.Vote.Instance]
	if !ok {
		return vref.MsgVerdict{Valid: false, Reason: "no-committee-in-world"}, rel
	}
	return vref.ValidateMessage(w.NN, c, m), rel
}

func checkVerdict(t vev.FailTB, w *vgen.MsgWorld, cur gpbft.Instant, lookback uint64, d drawnMsg, class string, err error) (vref.MsgVerdict, string) {
	v, rel := refVerdict(w, cur, lookback, d.msg)
	_, haveCommittee := w.Committees[d.msg.Vote.Instance]
	if class == "panic" || class == "other-error" {
		vev.Fail(t, c05, "C05/validate/unexpected-error-class", "op=%s: %v", d.op, err)
	}
	if class == "accept" && !v.Valid {
		vev.Fail(t, c05, "C05/validate/unsound-accept", "op=%s shape=%s: accepted although invalid (%s); msg=%v progress=%+v", d.op, d.shape, v.Reason, describeMsg(d.msg), cur)
	}
	if v.Valid && rel == vref.RelOK && class != "accept" {
		vev.Fail(t, c05, "C05/validate/relevant-valid-rejected", "op=%s shape=%s: valid and relevant but rejected (%s: %v); msg=%v progress=%+v lookback=%d", d.op, d.shape, class, err, describeMsg(d.msg), cur, lookback)
	}
	if v.Valid && class == "invalid" {
		vev.Fail(t, c05, "C05/validate/valid-branded-invalid", "op=%s shape=%s: valid message branded invalid: %v; progress=%+v", d.op, d.shape, err, cur)
	}
	_ = haveCommittee
	return v, rel
}

// TestC05Messages: single verdicts of a fresh participant vs the reference.
func TestC05Messages(t *testing.T) {
	rapid.Check(t, func(t *rapid.T) {
		first := uint64(rapid.IntRange(1, 50).Draw(t, "first"))
		n := rapid.IntRange(1, 4).Draw(t, "ninst")
		w := vgen.GenMsgWorld(t, "w", first, n, 10)
		lookback := uint64(rapid.IntRange(1, 5).Draw(t, "lookback"))
		cur := drawProgress(t, "cur", first, n)
		d := drawMsg(t, "m", w, first, n)
		p := newParticipant(t, w, lookback, 0, 0)
		p.VerifSetProgress(cur.ID, cur.Round, cur.Phase)
		_, err := p.ValidateMessage(context.Background(), d.msg)
		class := classify(err)
		v, rel := checkVerdict(t, w, cur, lookback, d, class, err)
		// determinism on a second fresh participant and on the same (now warm) one
		_, err2 := p.ValidateMessage(context.Background(), d.msg)
		if c2 := classify(err2); c2 != class {
			vev.Fail(t, c05, "C05/history/second-validation-differs", "op=%s: first %s, second %s", d.op, class, c2)
		}
		nt := d.op != "valid" || d.msg.Justification != nil
		vl := "ref-valid"
		if !v.Valid {
			vl = "ref-invalid:" + v.Reason
		}
		vev.Case(c05, vev.Digest(msgBytes(d.msg), fmt.Sprint(cur), lookback), nt, "op:"+d.op, "shape:"+d.shape, "verdict:"+class, "rel:"+rel, vl, "table-"+w.TableKind)
		vev.Sample(c05, func() any {
			return map[string]any{"kind": "single", "operator": d.op, "shape": d.shape, "message": describeMsg(d.msg), "progress": fmt.Sprintf("%+v", cur), "lookback": lookback, "impl": class, "ref_valid": v.Valid, "ref_reason": v.Reason, "relevance": rel}
		})
	})
}

// TestC05History: one long-lived participant with tiny caches vs a fresh one.
func TestC05History(t *testing.T) {
	rapid.Check(t, func(t *rapid.T) {
		first := uint64(rapid.IntRange(1, 50).Draw(t, "first"))
		n := rapid.IntRange(1, 3).Draw(t, "ninst")
		w := vgen.GenMsgWorld(t, "w", first, n, 8)
		lookback := uint64(rapid.IntRange(1, 4).Draw(t, "lookback"))
		ci := rapid.IntRange(1, 3).Draw(t, "cachedInstances")
		cm := rapid.IntRange(1, 4).Draw(t, "cachedMsgs")
		warm := newParticipant(t, w, lookback, ci, cm)
		cur := drawProgress(t, "cur0", first, n)
		warm.VerifSetProgress(cur.ID, cur.Round, cur.Phase)
		var pool []drawnMsg
		accepted := map[string]bool{}
		steps := rapid.IntRange(2, 30).Draw(t, "steps")
		twinAfterHit, repeats, forgedAfter := false, 0, 0
		var trace []string
		for s := 0; s < steps; s++ {
			action := rapid.IntRange(0, 11).Draw(t, "action")
			var d drawnMsg
			if action >= 10 && len(pool) > 0 {
				// the same history independence for validation without the chain (announced key only):
				// a stripped form of an earlier message, possibly re-keyed and re-signed by its sender
				src := pool[rapid.IntRange(0, len(pool)-1).Draw(t, "psrc")]
				it := makeItem(t, fmt.Sprintf("pit%d", s), w, src, rapid.Bool().Draw(t, "prekey"))
				_, werr := warm.PartiallyValidateMessage(context.Background(), clonePartial(it.pm))
				fresh := newParticipant(t, w, lookback, 0, 0)
				fresh.VerifSetProgress(cur.ID, cur.Round, cur.Phase)
				_, ferr := fresh.PartiallyValidateMessage(context.Background(), clonePartial(it.pm))
				if wc, fc := classify(werr), classify(ferr); wc != fc {
					vev.Fail(t, c05, "C05/history/partial-warm-differs-from-fresh", "step %d: partial validation (key %s) on the warm participant says %s (%v), on a fresh one %s (%v); msg=%v progress=%+v; trace=%v", s, it.keyOp, wc, werr, fc, ferr, describeMsg(it.pm.GMessage), cur, trace)
				}
				if c, ok := w.Committees[it.pm.Vote.Instance]; ok && werr == nil {
					if v := vref.ValidatePartial(w.NN, c, it.pm.GMessage, [32]byte(it.pm.VoteValueKey)); !v.Valid {
						vev.Fail(t, c05, "C05/validate/partial-unsound-accept", "step %d: partial validation accepted a message the reference rejects (%s); key %s; trace=%v", s, v.Reason, it.keyOp, trace)
					}
				}
				trace = append(trace, fmt.Sprintf("partial(%s|%s)->%s", it.op, it.keyOp, classify(werr)))
				continue
			}
			switch {
			case action == 0:
				cur = drawProgress(t, "cur", first, n)
				warm.VerifSetProgress(cur.ID, cur.Round, cur.Phase)
				trace = append(trace, fmt.Sprintf("progress %+v", cur))
				continue
			case action <= 3 && len(pool) > 0: // repeat a previous message
				d = pool[rapid.IntRange(0, len(pool)-1).Draw(t, "repeat")]
				d.op = "repeat:" + d.op
			case action <= 6 && len(pool) > 0: // forged variant of a previous message
				src := pool[rapid.IntRange(0, len(pool)-1).Draw(t, "twin")]
				m2, op := w.MutateMsg(t, "twinmut", src.msg)
				d = drawnMsg{m2, "twin:" + op, src.shape}
				if accepted[string(msgBytes(src.msg))] {
					forgedAfter++
				}
			default:
				d = drawMsg(t, "m", w, first, n)
			}
			key := string(msgBytes(d.msg))
			_, err := warm.ValidateMessage(context.Background(), d.msg)
			class := classify(err)
			fresh := newParticipant(t, w, lookback, 0, 0)
			fresh.VerifSetProgress(cur.ID, cur.Round, cur.Phase)
			_, ferr := fresh.ValidateMessage(context.Background(), d.msg)
			fclass := classify(ferr)
			if class != fclass {
				vev.Fail(t, c05, "C05/history/warm-differs-from-fresh", "step %d op=%s: warm participant says %s (%v), fresh says %s (%v); msg=%v progress=%+v; trace=%v", s, d.op, class, err, fclass, ferr, describeMsg(d.msg), cur, trace)
			}
			checkVerdict(t, w, cur, lookback, d, class, err)
			if accepted[key] {
				repeats++
			}
			if class == "accept" {
				accepted[key] = true
			}
			if repeats > 0 && len(d.op) > 5 && d.op[:5] == "twin:" {
				twinAfterHit = true
			}
			pool = append(pool, d)
			trace = append(trace, fmt.Sprintf("%s->%s", d.op, class))
		}
		vev.Case(c05, vev.Digest("hist", fmt.Sprint(trace), first, lookback, ci, cm), twinAfterHit || forgedAfter > 0, "history", fmt.Sprintf("history-repeats>0:%v", repeats > 0), fmt.Sprintf("history-forged-twin-of-accepted:%v", forgedAfter > 0))
		vev.Sample(c05, func() any {
			return map[string]any{"kind": "history", "cached_instances": ci, "cached_msgs_per_instance": cm, "lookback": lookback, "trace": trace}
		})
	})
}

// TestC05Concurrent: many goroutines validate the same message set on one
// participant; verdict classes must equal the sequential ones (run with -race
// by the driver's race job as well).
func TestC05Concurrent(t *testing.T) {
	rapid.Check(t, func(t *rapid.T) {
		first := uint64(rapid.IntRange(1, 50).Draw(t, "first"))
		n := rapid.IntRange(1, 3).Draw(t, "ninst")
		w := vgen.GenMsgWorld(t, "w", first, n, 8)
		lookback := uint64(rapid.IntRange(1, 4).Draw(t, "lookback"))
		cur := drawProgress(t, "cur", first, n)
		k := rapid.IntRange(4, 24).Draw(t, "nmsgs")
		msgs := make([]drawnMsg, k)
		want := make([]string, k)
		for i := range msgs {
			msgs[i] = drawMsg(t, fmt.Sprintf("m%d", i), w, first, n)
			if i > 0 && rapid.IntRange(0, 2).Draw(t, "dup") == 0 {
				msgs[i] = msgs[rapid.IntRange(0, i-1).Draw(t, "dupidx")]
			}
			fresh := newParticipant(t, w, lookback, 0, 0)
			fresh.VerifSetProgress(cur.ID, cur.Round, cur.Phase)
			_, err := fresh.ValidateMessage(context.Background(), msgs[i].msg)
			want[i] = classify(err)
		}
		shared := newParticipant(t, w, lookback, rapid.IntRange(1, 3).Draw(t, "ci"), rapid.IntRange(1, 8).Draw(t, "cm"))
		shared.VerifSetProgress(cur.ID, cur.Round, cur.Phase)
		workers := rapid.IntRange(8, 32).Draw(t, "workers")
		got := make([][]string, workers)
		var wg sync.WaitGroup
		for g := 0; g < workers; g++ {
			wg.Add(1)
			go func(g int) {
				defer wg.Done()
				res := make([]string, k)
				for x := 0; x < k; x++ {
					i := (x + g*3) % k
					// each goroutine validates its own copy: the API takes ownership of nothing
					_, err := shared.ValidateMessage(context.Background(), vgen.CloneMsg(msgs[i].msg))
					res[i] = classify(err)
				}
				got[g] = res
			}(g)
		}
		wg.Wait()
		for g := range got {
			for i := range got[g] {
				if got[g][i] != want[i] {
					vev.Fail(t, c05, "C05/concurrent/verdict-differs", "goroutine %d message %d (op=%s): concurrent %s, sequential fresh %s", g, i, msgs[i].op, got[g][i], want[i])
				}
			}
		}
		vev.Case(c05, vev.Digest("conc", fmt.Sprint(want), workers, first), true, "concurrent")
		vev.Sample(c05, func() any {
			return map[string]any{"kind": "concurrent", "workers": workers, "messages": k, "sequential_verdicts": want}
		})
	})
}
