package t_certs

import (
	"fmt"
	"math/big"
	"testing"

	"github.com/filecoin-project/go-f3/certs"
	"github.com/filecoin-project/go-f3/gpbft"
	"github.com/filecoin-project/go-f3/verifharness/vcrypto"
	"github.com/filecoin-project/go-f3/verifharness/vev"
	"github.com/filecoin-project/go-f3/verifharness/vgen"
	"github.com/filecoin-project/go-f3/verifharness/vref"
	"pgregory.net/rapid"
)

const c04 = "C04"

func TestMain(m *testing.M) {
	vev.Rule(c04, "generated: honest certificate chains (1..N certs, evolving tables, generated EC history, signer sets all/minimal/random quorum) with one corruption operator "+
		"(instance, tipset fields, chain shape, supplemental data, signer set at the 2/3 boundary, zero-power signer, index=len, signature for other payload/network, delta edits/order/no-op, splice from another history, truncation) "+
		"and a generated validation context (right/wrong/nil base, right/next table, right/shifted expected instance), decided by an independent reference validator; table pairs and near-valid deltas against the delta laws. "+
		"Non-trivial = sequence with >=2 certificates and a non-empty delta, or any corrupted sequence, or a table pair with at least one changed member; distinct by digest of (operator, sequence bytes/context)")
	vev.Main(m)
}

func maxCerts() int {
	if vev.Thorough() {
		return vev.IntEnv("VERIF_C04_MAXCERTS", 40)
	}
	return 8
}

func certDigest(cs []*certs.FinalityCertificate) string {
	s := ""
	for _, c := range cs {
		s += fmt.Sprintf("%d|%x|%x|%v|%x|%d;", c.GPBFTInstance, vref.ChainKey(c.ECChain), c.SupplementalData.Commitments[:4], c.SupplementalData.PowerTable, c.Signature[:min(8, len(c.Signature))], len(c.PowerTableDelta))
	}
	return s
}

func describeCerts(cs []*certs.FinalityCertificate) []any {
	var out []any
	for i, c := range cs {
		if i >= 6 {
			out = append(out, fmt.Sprintf("... %d more", len(cs)-i))
			break
		}
		l := 0
		if c.ECChain != nil {
			l = len(c.ECChain.TipSets)
		}
		out = append(out, map[string]any{"instance": c.GPBFTInstance, "chain_len": l, "signers": vgen.SignerIndices(c.Signers), "delta_entries": len(c.PowerTableDelta)})
	}
	return out
}

// TestC04Sequences: ValidateFinalityCertificates against the reference.
func TestC04Sequences(t *testing.T) {
	rapid.Check(t, func(t *rapid.T) {
		n := rapid.IntRange(1, maxCerts()).Draw(t, "ncerts")
		cc := vgen.GenCertChain(t, "cc", n, 12, "A")
		var other *vgen.CertChain
		seq := cc.Certs
		op := "honest"
		if rapid.IntRange(0, 4).Draw(t, "corrupt") > 0 {
			if rapid.IntRange(0, 3).Draw(t, "withother") == 0 {
				other = vgen.GenCertChain(t, "other", rapid.IntRange(1, 3).Draw(t, "nother"), 6, "B")
			}
			seq, op = vgen.MutateCerts(t, "mut", cc, other)
		}
		// validation context
		table := cc.Tables[0]
		next := cc.First
		base := cc.Base
		ctx := "ctx-right"
		switch rapid.IntRange(0, 11).Draw(t, "ctx") {
		case 0:
			base = nil
			ctx = "ctx-nil-base"
		case 1:
			base = vgen.CloneTipSet(cc.Base)
			base.Epoch++
			ctx = "ctx-wrong-base"
		case 2:
			next++
			ctx = "ctx-next+1"
		case 3:
			if len(cc.Tables) > 1 {
				table = cc.Tables[1]
				ctx = "ctx-table+1"
			}
		}
		tableBefore := vref.CloneEntries(table)
		tableArg := vref.CloneEntries(table)
		want := vref.ValidateCerts(cc.NN, table, next, base, seq)

		gotNext, gotChain, gotTable, err := certs.ValidateFinalityCertificates(vcrypto.Scheme{}, cc.NN, tableArg, next, base, seq...)

		allValid := want.ValidPrefix == len(seq)
		if op == "honest" && ctx == "ctx-right" && !allValid {
			vev.Fail(t, c04, "HARNESS/C04/honest-chain-rejected-by-reference", "reference rejects an honest chain: %s", want.Reason)
		}
		if allValid && err != nil {
			vev.Fail(t, c04, "C04/validate/valid-sequence-rejected", "op=%s %s: reference accepts all %d certs, implementation: %v", op, ctx, len(seq), err)
		}
		if !allValid && err == nil {
			vev.Fail(t, c04, "C04/validate/invalid-sequence-accepted", "op=%s %s: cert #%d invalid (%s) but sequence accepted", op, ctx, want.ValidPrefix, want.Reason)
		}
		if gotNext != want.NextInstance {
			vev.Fail(t, c04, "C04/validate/next-instance", "op=%s %s: next instance %d, want %d (valid prefix %d, err=%v)", op, ctx, gotNext, want.NextInstance, want.ValidPrefix, err)
		}
		var gotSuffix []*gpbft.TipSet
		if gotChain != nil {
			gotSuffix = gotChain.TipSets
		}
		if !vref.ChainEq(&gpbft.ECChain{TipSets: gotSuffix}, &gpbft.ECChain{TipSets: want.Suffixes}) {
			vev.Fail(t, c04, "C04/validate/chain", "op=%s %s: returned chain has %d tipsets, want %d (valid prefix %d)", op, ctx, len(gotSuffix), len(want.Suffixes), want.ValidPrefix)
		}
		if len(seq) > 0 { // the zero-certificate call is outside the statement
			if !(want.ValidPrefix == 0 && err == nil) && !vref.EntriesEq(gotTable, want.Table) {
				vev.Fail(t, c04, "C04/validate/table", "op=%s %s: returned table differs from the table after the valid prefix (%d certs, err=%v)", op, ctx, want.ValidPrefix, err)
			}
		}
		if !vref.EntriesEq(tableArg, tableBefore) {
			vev.Fail(t, c04, "C04/validate/caller-table-modified", "op=%s: caller's table was modified", op)
		}
		nonEmptyDelta := false
		for _, c := range cc.Certs {
			if len(c.PowerTableDelta) > 0 {
				nonEmptyDelta = true
			}
		}
		nt := op != "honest" || ctx != "ctx-right" || (len(seq) >= 2 && nonEmptyDelta)
		verdict := "accepted"
		if !allValid {
			verdict = "rejected:" + want.Reason
			if len(verdict) > 40 {
				verdict = verdict[:40]
			}
		}
		vev.Case(c04, vev.Digest("seq", op, ctx, certDigest(seq)), nt, "seq-op:"+op, ctx, "seq-"+verdict, "tablekind-"+cc.Kind)
		vev.Sample(c04, func() any {
			return map[string]any{"kind": "sequence", "operator": op, "context": ctx, "network": cc.NN, "first_instance": cc.First, "table_members": len(table),
				"certs": describeCerts(seq), "reference_valid_prefix": want.ValidPrefix, "reference_reason": want.Reason, "impl_error": fmt.Sprint(err)}
		})
	})
}

// TestC04DeltaLaws: Make/Apply on pairs of well-formed tables and near-valid deltas.
func TestC04DeltaLaws(t *testing.T) {
	rapid.Check(t, func(t *rapid.T) {
		maxN := 30
		if vev.Thorough() {
			maxN = 300
		}
		a := vgen.Entries(t, "a", 1, maxN).Entries
		var b gpbft.PowerEntries
		pairKind := "evolved"
		if rapid.IntRange(0, 5).Draw(t, "indep") == 0 {
			b = vgen.Entries(t, "b", 1, maxN).Entries
			pairKind = "independent"
		} else {
			b = vgen.Evolve(t, "ev", a, 8)
		}
		if rapid.IntRange(0, 3).Draw(t, "shuffle") == 0 {
			// Make is documented to make no assumption about order
			b = shuffle(t, b)
			pairKind += "+shuffled"
		}
		aBefore, bBefore := vref.CloneEntries(a), vref.CloneEntries(b)
		d := certs.MakePowerTableDiff(a, b)
		// sorted strictly by id, no zero entries
		for i := range d {
			if i > 0 && d[i].ParticipantID <= d[i-1].ParticipantID {
				vev.Fail(t, c04, "C04/delta/make-not-sorted", "delta not strictly sorted at %d", i)
			}
			if d[i].IsZero() {
				vev.Fail(t, c04, "C04/delta/make-zero-entry", "delta has a no-op entry for %d", d[i].ParticipantID)
			}
		}
		if !vref.DiffEq(d, vref.MakeDiff(a, b)) {
			vev.Fail(t, c04, "C04/delta/make-not-canonical", "MakePowerTableDiff differs from the reference delta")
		}
		if !vref.EntriesEq(a, aBefore) || !vref.EntriesEq(b, bBefore) {
			vev.Fail(t, c04, "C04/delta/make-modifies-input", "MakePowerTableDiff modified an input")
		}
		got, err := certs.ApplyPowerTableDiffs(a, d)
		if err != nil {
			vev.Fail(t, c04, "C04/delta/apply-rejects-made", "Apply(a, Make(a,b)) failed: %v", err)
		}
		if !vref.EntriesEq(got, vref.Canonical(b)) {
			vev.Fail(t, c04, "C04/delta/apply-make-roundtrip", "Apply(a, Make(a,b)) != canonical(b)")
		}
		if !vref.EntriesEq(a, aBefore) {
			vev.Fail(t, c04, "C04/delta/apply-modifies-input", "ApplyPowerTableDiffs modified the caller's table")
		}

		// near-valid deltas
		d2 := vgen.CloneDiff(d)
		mop := "none"
		if len(d2) > 0 || true {
			mop = rapid.SampledFrom([]string{"none", "power+1", "power-1", "swap", "dup", "noop", "same-key", "drop", "new-nokey", "new-nonpositive", "remove-with-key", "overdraw", "rekey"}).Draw(t, "dmut")
			i := 0
			if len(d2) > 0 {
				i = rapid.IntRange(0, len(d2)-1).Draw(t, "di")
			}
			ai := a[rapid.IntRange(0, len(a)-1).Draw(t, "ai")]
			switch mop {
			case "power+1", "power-1":
				if len(d2) > 0 {
					x := int64(1)
					if mop == "power-1" {
						x = -1
					}
					d2[i].PowerDelta = gpbft.StoragePower{Int: new(big.Int).Add(d2[i].PowerDelta.Int, big.NewInt(x))}
				}
			case "swap":
				if len(d2) >= 2 {
					j := (i + 1) % len(d2)
					d2[i], d2[j] = d2[j], d2[i]
				}
			case "dup":
				if len(d2) > 0 {
					d2 = append(d2[:i+1], append(certs.PowerTableDiff{vgen.CloneDiff(d2[i : i+1])[0]}, d2[i+1:]...)...)
				}
			case "noop":
				d2 = insert(d2, certs.PowerTableDelta{ParticipantID: ai.ID, PowerDelta: gpbft.StoragePower{Int: new(big.Int)}})
			case "same-key":
				d2 = insert(d2, certs.PowerTableDelta{ParticipantID: ai.ID, PowerDelta: gpbft.StoragePower{Int: big.NewInt(1)}, SigningKey: append(gpbft.PubKey(nil), ai.PubKey...)})
			case "drop":
				if len(d2) > 0 {
					d2 = append(d2[:i], d2[i+1:]...)
				}
			case "new-nokey":
				d2 = insert(d2, certs.PowerTableDelta{ParticipantID: 1 << 40, PowerDelta: gpbft.StoragePower{Int: big.NewInt(5)}})
			case "new-nonpositive":
				d2 = insert(d2, certs.PowerTableDelta{ParticipantID: 1 << 40, PowerDelta: gpbft.StoragePower{Int: big.NewInt(int64(rapid.IntRange(-3, 0).Draw(t, "np")))}, SigningKey: vcrypto.PubKey(77)})
			case "remove-with-key":
				d2 = insert(d2, certs.PowerTableDelta{ParticipantID: ai.ID, PowerDelta: gpbft.StoragePower{Int: new(big.Int).Neg(ai.Power.Int)}, SigningKey: vcrypto.PubKey(78)})
			case "overdraw":
				d2 = insert(d2, certs.PowerTableDelta{ParticipantID: ai.ID, PowerDelta: gpbft.StoragePower{Int: new(big.Int).Sub(big.NewInt(-1), ai.Power.Int)}})
			case "rekey":
				d2 = insert(d2, certs.PowerTableDelta{ParticipantID: ai.ID, PowerDelta: gpbft.StoragePower{Int: new(big.Int)}, SigningKey: vcrypto.PubKey(79)})
			}
		}
		want2, werr := vref.ApplyDiff(a, d2)
		d2Before := vgen.CloneDiff(d2)
		got2, gerr := certs.ApplyPowerTableDiffs(a, d2)
		if (werr == nil) != (gerr == nil) {
			if werr != nil {
				vev.Fail(t, c04, "C04/delta/malformed-accepted", "mutation %s: reference rejects (%v), implementation accepts", mop, werr)
			}
			vev.Fail(t, c04, "C04/delta/wellformed-rejected", "mutation %s: reference accepts, implementation rejects: %v", mop, gerr)
		}
		if !vref.EntriesEq(a, aBefore) {
			vev.Fail(t, c04, "C04/delta/apply-modifies-input", "ApplyPowerTableDiffs modified the caller's table (mutation %s, err=%v)", mop, gerr)
		}
		if !vref.DiffEq(d2, d2Before) {
			vev.Fail(t, c04, "C04/delta/apply-modifies-delta", "ApplyPowerTableDiffs modified the delta")
		}
		if gerr == nil {
			if !vref.EntriesEq(got2, want2) {
				vev.Fail(t, c04, "C04/delta/apply-result", "mutation %s: applied table differs from reference", mop)
			}
			// uniqueness: an accepted delta is the canonical delta between input and output
			if !vref.DiffEq(d2, certs.MakePowerTableDiff(a, got2)) || !vref.DiffEq(d2, vref.MakeDiff(a, got2)) {
				vev.Fail(t, c04, "C04/delta/accepted-not-canonical", "mutation %s: accepted delta is not Make(a, Apply(a,d))", mop)
			}
			// canonical order of the output
			if !vref.EntriesEq(got2, vref.Canonical(got2)) {
				vev.Fail(t, c04, "C04/delta/apply-not-canonical-order", "applied table not in canonical order")
			}
		}
		verdict := "delta-accepted"
		if gerr != nil {
			verdict = "delta-rejected"
		}
		vev.Case(c04, vev.Digest("delta", fmt.Sprint(a), fmt.Sprint(b), mop, fmt.Sprint(d2)), len(d) > 0 || mop != "none", "pair-"+pairKind, "delta-mut:"+mop, verdict)
		vev.Sample(c04, func() any {
			return map[string]any{"kind": "table-pair", "pair": pairKind, "members_a": len(a), "members_b": len(b), "delta_entries": len(d), "mutation": mop, "mutated_delta_accepted": gerr == nil}
		})
	})
}

func shuffle(t *rapid.T, e gpbft.PowerEntries) gpbft.PowerEntries {
	out := vref.CloneEntries(e)
	for i := len(out) - 1; i > 0; i-- {
		j := rapid.IntRange(0, i).Draw(t, "shuf")
		out[i], out[j] = out[j], out[i]
	}
	return out
}

func insert(d certs.PowerTableDiff, x certs.PowerTableDelta) certs.PowerTableDiff {
	out := make(certs.PowerTableDiff, 0, len(d)+1)
	done := false
	for _, e := range d {
		if !done && e.ParticipantID >= x.ParticipantID {
			out = append(out, x)
			done = true
			if e.ParticipantID == x.ParticipantID {
				continue
			}
		}
		out = append(out, e)
	}
	if !done {
		out = append(out, x)
	}
	return out
}
