// Package vev collects evidence from property runs: how many cases were
// generated, how many distinct ones were non-trivial by the property's stated
// rule, a label histogram describing what the generator produced, and samples
// of actual cases. Every test binary calls vev.Main from TestMain; the
// collected statistics are written to the file named by VERIF_STATS when the
// process ends, and merged by the driver (/verif/check) into
// /verif/evidence/<id>.json.
package vev

import (
	"encoding/json"
	"fmt"
	"hash/fnv"
	"os"
	"sort"
	"strconv"
	"sync"
	"testing"
)

// FailTB is the subset of testing.TB / rapid.T that Fail needs.
type FailTB interface {
	Helper()
	Fatalf(format string, args ...any)
	Logf(format string, args ...any)
}

type propStats struct {
	Evaluations int64            `json:"evaluations"`
	Digests     map[uint64]bool  `json:"-"`
	DigestList  []uint64         `json:"digests"`
	Labels      map[string]int64 `json:"labels"`
	Samples     []any            `json:"samples"`
	Rule        string           `json:"rule"`
	Exhaustive  bool             `json:"exhaustive,omitempty"`
	Excluded    map[string]int64 `json:"excluded,omitempty"`
	Notes       []string         `json:"notes,omitempty"`
	sampleSeen  int64
}

var (
	mu    sync.Mutex
	props = map[string]*propStats{}
)

const maxSamples = 6
const maxDigests = 4_000_000

func get(id string) *propStats {
	p := props[id]
	if p == nil {
		p = &propStats{Digests: map[uint64]bool{}, Labels: map[string]int64{}, Excluded: map[string]int64{}}
		props[id] = p
	}
	return p
}

// Rule records, once, the generation/non-triviality rule of property id.
func Rule(id, rule string) {
	mu.Lock()
	defer mu.Unlock()
	get(id).Rule = rule
}

// Exhaustive marks that this run enumerated a finite sub-domain completely.
func Exhaustive(id string, note string) {
	mu.Lock()
	defer mu.Unlock()
	p := get(id)
	p.Exhaustive = true
	p.Notes = append(p.Notes, note)
}

func Note(id string, note string) {
	mu.Lock()
	defer mu.Unlock()
	p := get(id)
	if len(p.Notes) < 50 {
		p.Notes = append(p.Notes, note)
	}
}

// Digest hashes arbitrary printable parts into a 64 bit case digest.
func Digest(parts ...any) uint64 {
	h := fnv.New64a()
	for _, p := range parts {
		switch v := p.(type) {
		case []byte:
			h.Write(v)
		case string:
			h.Write([]byte(v))
		default:
			fmt.Fprintf(h, "%v", v)
		}
		h.Write([]byte{0})
	}
	return h.Sum64()
}

// Case records one executed case. digest identifies the case, nontrivial is the
// verdict of the property's non-triviality rule, labels feed the histogram.
func Case(id string, digest uint64, nontrivial bool, labels ...string) {
	mu.Lock()
	defer mu.Unlock()
	p := get(id)
	p.Evaluations++
	if nontrivial && len(p.Digests) < maxDigests {
		p.Digests[digest] = true
	}
	for _, l := range labels {
		if l != "" {
			p.Labels[l]++
		}
	}
}

// Nontrivial records a non-trivial case digest without counting an evaluation
// (used by bulk enumerations that count evaluations with Count).
func Nontrivial(id string, digest uint64) {
	mu.Lock()
	defer mu.Unlock()
	p := get(id)
	if len(p.Digests) < maxDigests {
		p.Digests[digest] = true
	}
}

// Count adds n to evaluations without a digest (bulk enumerations).
func Count(id string, n int64, labels ...string) {
	mu.Lock()
	defer mu.Unlock()
	p := get(id)
	p.Evaluations += n
	for _, l := range labels {
		p.Labels[l] += n
	}
}

// Label increments histogram entries without counting a case.
func Label(id string, labels ...string) {
	mu.Lock()
	defer mu.Unlock()
	p := get(id)
	for _, l := range labels {
		if l != "" {
			p.Labels[l]++
		}
	}
}

func LabelN(id string, label string, n int64) {
	mu.Lock()
	defer mu.Unlock()
	get(id).Labels[label] += n
}

// Excluded counts a case dropped by construction because it belongs to a
// known-finding class.
func Excluded(id, class string) {
	mu.Lock()
	defer mu.Unlock()
	get(id).Excluded[class]++
}

// Sample offers a rendered case; the first few and then a deterministic
// thinning (every 2^k-th) are kept.
func Sample(id string, render func() any) {
	mu.Lock()
	defer mu.Unlock()
	p := get(id)
	p.sampleSeen++
	n := p.sampleSeen
	if len(p.Samples) < maxSamples/2 {
		p.Samples = append(p.Samples, render())
		return
	}
	// keep cases number 2^k beyond the first few: deterministic, spread out
	if n&(n-1) == 0 {
		if len(p.Samples) >= maxSamples {
			copy(p.Samples[maxSamples/2:], p.Samples[maxSamples/2+1:])
			p.Samples = p.Samples[:maxSamples-1]
		}
		p.Samples = append(p.Samples, render())
	}
}

// Fail reports a violation of property id with a stable signature (oracle
// clause + blamed site, never a seed) and aborts the case.
func Fail(t FailTB, id, sig, format string, args ...any) {
	t.Helper()
	msg := fmt.Sprintf(format, args...)
	// The marker goes to the log so that it is part of the test output after
	// shrinking (rapid replays the minimal case last).
	t.Logf("VERIF-FAIL property=%s sig=%s", id, sig)
	t.Fatalf("property %s violated [%s]: %s", id, sig, msg)
}

// Env helpers -----------------------------------------------------------

func Tier() string {
	if v := os.Getenv("VERIF_TIER"); v != "" {
		return v
	}
	return "quick"
}

func Thorough() bool { return Tier() == "thorough" }

func Seed() int64 {
	if v, err := strconv.ParseInt(os.Getenv("VERIF_SEED"), 10, 64); err == nil {
		return v
	}
	return 1
}

// Shard returns (index, count) of this process among the driver's shards.
func Shard() (int, int) {
	i, _ := strconv.Atoi(os.Getenv("VERIF_SHARD"))
	n, _ := strconv.Atoi(os.Getenv("VERIF_SHARDS"))
	if n <= 0 {
		n = 1
	}
	if i < 0 || i >= n {
		i = 0
	}
	return i, n
}

// IntEnv reads an integer knob set by the driver (case counts, sizes).
func IntEnv(name string, def int) int {
	if v, err := strconv.Atoi(os.Getenv(name)); err == nil {
		return v
	}
	return def
}

// Main runs the tests and writes the statistics file.
func Main(m *testing.M) {
	code := m.Run()
	if err := Flush(); err != nil {
		fmt.Fprintln(os.Stderr, "vev: cannot write stats:", err)
		if code == 0 {
			code = 3
		}
	}
	os.Exit(code)
}

func Flush() error {
	path := os.Getenv("VERIF_STATS")
	if path == "" {
		return nil
	}
	mu.Lock()
	defer mu.Unlock()
	for _, p := range props {
		p.DigestList = p.DigestList[:0]
		for d := range p.Digests {
			p.DigestList = append(p.DigestList, d)
		}
		sort.Slice(p.DigestList, func(i, j int) bool { return p.DigestList[i] < p.DigestList[j] })
	}
	b, err := json.Marshal(props)
	if err != nil {
		return err
	}
	tmp := path + ".tmp"
	if err := os.WriteFile(tmp, b, 0o644); err != nil {
		return err
	}
	return os.Rename(tmp, path)
}
