package t_net

import (
	"fmt"
	"os"
	"testing"

	"github.com/filecoin-project/go-f3/gpbft"
	"github.com/filecoin-project/go-f3/verifharness/vev"
	"github.com/filecoin-project/go-f3/verifharness/vnet"
	"github.com/filecoin-project/go-f3/verifharness/vref"
	"pgregory.net/rapid"
)

const worldRule = "generated worlds: 1..N members with generated (uniform/skewed/whale/dust/huge) power, roles honest / crash-silent / Byzantine with Byzantine scaled power strictly below one third, 1..3 consecutive instances with re-weighted tables, honest inputs = paths in an implicit EC tree (common prefix, forks at every depth, extensions), generated gpbft options (delta, back-off exponent, look-ahead, rebroadcast); " +
	"every delivery, duplicate, drop, timer firing, staggered start and Byzantine emission is a generated choice under one of six scheduler profiles (near-sync, random, timeout-heavy, partition-and-heal, equivocate, late-commit); the coalition signs only with its own keys and re-uses observed honest signatures to assemble justifications, sending each message to a generated subset; a closing phase then delivers everything in time order so that decisions are actually reached. "

func TestMain(m *testing.M) {
	vev.Rule("C01", worldRule+"Oracle: all decisions reported by honest participants for one instance are equal (content and independently recomputed key), at most one decision per participant and instance. Non-trivial = some instance with >=2 honest decisions AND (honest inputs differ, or a Byzantine message was accepted by an honest participant, or messages were dropped/duplicated); distinct by digest of configuration + event trace")
	vev.Rule("C02", worldRule+"Oracle: every honest decision is non-empty, starts at the base the participant's GetProposal returned and is a prefix of some honest participant's input; in the unanimous mode (no Byzantine sender, identical honest inputs, honest strong quorum, timely delivery) the decision equals the common input. Non-trivial = decision taken where >=2 distinct honest inputs existed or a foreign chain was delivered, or a unanimous-mode case with chain length >= 2; distinct by digest of configuration + trace")
	vev.Rule("C03", worldRule+"Oracle for every reported decision: justification for that instance, round 0, DECIDE, the instance's supplemental data; signer indices strictly increasing, in range, non-zero scaled power (recomputed), strong quorum; aggregate verifies over the independently encoded DECIDE payload of exactly the decided value; NewFinalityCertificate + ValidateFinalityCertificates (and the reference validator) accept it on a node that holds only the table and return instance+1, the decided suffix and the next table. Non-trivial = decision whose signer set is a proper subset of the DECIDE senders delivered, or whose table has a zero-scaled member, or with a non-empty delta; distinct by digest of configuration + trace")
	vev.Rule("C06", "generated pre-stabilisation prefix (arbitrary delay/reorder/duplication, staggered starts, crash-silent members, Byzantine history below one third, NO loss between honest participants) followed by the timely regime (every message delivered within Delta in time order, alarms on time, coalition silent, live honest power a strong quorum). Oracle: every started honest participant decides before any honest participant exceeds round R+6 (no Byzantine message ever sent) or R+40 (otherwise), R = highest honest round at stabilisation. Non-trivial = R>=1, or participants in different rounds/phases at stabilisation, or diverging inputs, or a non-empty Byzantine history; distinct by digest of configuration + trace")
	vev.Rule("C07", worldRule+"Oracle: per-emission monitors fed by what was actually delivered to the emitting participant: (a) one broadcast per instance/round/step, (b) every emission valid under the reference validator and never branded invalid by an honest peer, (c) progress never decreases, (d) no panic / non-validation error from ReceiveMessage, ReceiveAlarm, StartInstanceAt, (e) round-0 PREPARE = longest input prefix with a strong quorum of delivered QUALITY votes, (f) PREPARE of round>=1 adopts the best-ticket delivered CONVERGE value when it is a prefix of the round-0 proposal, (g) no COMMIT bottom with a strong PREPARE quorum for the proposal, nor before the PREPARE deadline unless the quorum is impossible, (h) only values that are prefixes of the own input or carry a delivered justification. Non-trivial = execution with an emission in round >=1, a COMMIT bottom, a vote outside the own input, or accepted Byzantine traffic; distinct by digest of configuration + trace")
	vev.Main(m)
}

type failure struct {
	id, sig, msg string
	trace        []string
}

type runParams struct {
	prop      string
	gen       vnet.GenOpts
	run       vnet.RunOpts
	unanimous bool
}

func maxSteps() int {
	if vev.Thorough() {
		return vev.IntEnv("VERIF_NET_STEPS", 2000)
	}
	return vev.IntEnv("VERIF_NET_STEPS", 700)
}

func maxMembers() int {
	if vev.Thorough() {
		return 9
	}
	return 7
}

// runWorld generates and executes one world and evaluates every oracle; only
// failures of property prop abort the case.
func runWorld(t *rapid.T, prop string) {
	longInputs := false
	unanimous := prop == "C02" && (rapid.IntRange(0, 3).Draw(t, "unanimous") == 0 || os.Getenv("VERIF_UNANIMOUS") != "")
	gen := vnet.GenOpts{MaxMembers: maxMembers(), MaxInstances: 3, MaxPathLen: 5, AllowByz: !unanimous, AllowSilent: true, HonestQuorum: rapid.IntRange(0, 9).Draw(t, "honestquorum") > 0 || unanimous, Unanimous: unanimous, MaxExponent: 2.0}
	if rapid.IntRange(0, map[bool]int{true: 11, false: 39}[vev.Thorough()]).Draw(t, "longchains") == 0 {
		// inputs around and beyond the maximum chain length (128 tipsets with the base): what
		// GetProposal returns may be longer, the participant proposes its first 128 tipsets
		gen.MinPathLen, gen.MaxPathLen = 124, 136
		longInputs = true
	}
	gen.AllowPartial = !unanimous
	gen.AllowDivergent = !unanimous && (prop == "C02" || prop == "C07" || prop == "C03")
	profile := rapid.SampledFrom(vnet.Profiles).Draw(t, "profile")
	if forced := os.Getenv("VERIF_PROFILE"); forced != "" {
		profile = forced // development aid only
	}
	if unanimous {
		profile = "near-sync"
	}
	if profile == "two-faced" {
		// each side of the partition must prefer its own chain: honest inputs fork at the base
		gen.TwoFaced = true
		gen.MinPathLen = max(gen.MinPathLen, 1)
	}
	if profile == "gate" || profile == "laggard" || profile == "hijack" || profile == "rotlag" || profile == "rules" {
		// the gate schedule splits proposals best when the inputs themselves agree
		gen.MinPathLen = max(gen.MinPathLen, 1)
		gen.Unanimous = rapid.Bool().Draw(t, "gateunanimous")
	}
	if profile == "hijack" || profile == "rotlag" {
		gen.ForceByzIfAble = true
	}
	cfg := vnet.GenConfig(t, gen)
	var fails []failure
	other := map[string]int{}
	w, err := vnet.NewWorld(cfg, nil)
	if err != nil {
		t.Fatalf("HARNESS: NewWorld: %v", err)
	}
	w.Fail = func(id, sig, msg string) {
		if id == prop {
			tr := w.Trace
			if keep := vev.IntEnv("VERIF_TRACE_LINES", 70); len(tr) > keep {
				tr = tr[len(tr)-keep:]
			}
			fails = append(fails, failure{id, sig, msg, append([]string(nil), tr...)})
		} else {
			other[id]++
		}
	}
	ro := vnet.RunOpts{Profile: profile, MaxSteps: maxSteps(), AllowDrop: !unanimous, AllowByz: !unanimous}
	ro.GreedyDecide = !unanimous && rapid.Bool().Draw(t, "greedydecide")
	if unanimous {
		// timely delivery from the very start: the closing regime is the whole run; latencies
		// strictly inside the synchrony bound (with a start skew of exactly delta and a latency
		// of exactly delta a QUALITY vote meets the 2*delta timeout at the same instant)
		ro.MaxSteps = 0
		w.StrictlyTimely = true
	}
	w.RunPrefix(t, ro)
	report := func() {
		if len(fails) > 0 {
			f := fails[0]
			tr := f.trace
			vev.Fail(t, f.id, f.sig, "%s\n  world: honest=%v silent=%v byz=%v instances=%d profile=%s\n  %s\n  last events:\n    %s", f.msg, cfg.Honest, cfg.Silent, cfg.Byz, len(cfg.Instances), profile, w.Summary(), joinLines(tr))
		}
	}
	report()
	cr := w.Close(t, 6000, 0)
	report()
	decisions, multi := w.CheckAgreement()
	w.CheckValidity()
	ntProofs := w.CheckDecisionProofs()
	if unanimous {
		for inst := cfg.First; inst <= cfg.Last(); inst++ {
			for _, n := range w.Nodes {
				if d := n.Decided[inst]; d != nil {
					if in := n.Inputs[inst]; !vref.ChainEq(d.J.Vote.Value, in) {
						w.Fail("C02", "C02/unanimity/common-input-not-decided", fmt.Sprintf("unanimous timely run: node %d decided %d tipsets in instance %d, common input has %d", n.ID, d.J.Vote.Value.Len(), inst, in.Len()))
					}
				}
			}
		}
		if !cr.AllDecided {
			vev.Label(prop, "unanimous-not-all-decided")
		}
	}
	report()

	// ---- evidence
	inputsDiffer := false
	for _, ic := range cfg.Instances {
		var firstPath string
		for i, id := range cfg.Honest {
			p := fmt.Sprint(ic.Paths[id])
			if i == 0 {
				firstPath = p
			} else if p != firstPath {
				inputsDiffer = true
			}
		}
	}
	foreignDelivered := w.Stats.ByzAccepted > 0
	emR1, cb, outside := 0, 0, 0
	for _, n := range w.Nodes {
		emR1 += n.Mon.Labels["emission-round>=1"]
		cb += n.Mon.Labels["commit-bottom"]
		outside += n.Mon.Labels["vote-outside-own-input"]
		for k, v := range n.Mon.Labels {
			vev.LabelN(prop, "mon:"+k, int64(v))
		}
	}
	var nt bool
	switch prop {
	case "C01":
		nt = multi && (inputsDiffer || foreignDelivered || w.Stats.Dropped+w.Stats.Duplicated > 0)
	case "C02":
		nt = decisions > 0 && (inputsDiffer || foreignDelivered || (unanimous && len(cfg.Instances[0].Paths[cfg.Honest[0]]) >= 1))
	case "C03":
		nt = ntProofs > 0
	case "C07":
		nt = emR1 > 0 || cb > 0 || outside > 0 || foreignDelivered
	}
	digest := vev.Digest(prop, fmt.Sprint(cfg.Honest, cfg.Silent, cfg.Byz, cfg.First, len(cfg.Instances)), fmt.Sprint(cfg.Instances[0].Paths), profile, len(w.Trace), w.Stats, fmt.Sprint(w.Trace[min(len(w.Trace), 40):min(len(w.Trace), 80)]))
	labels := []string{
		"profile:" + profile, "table:" + cfg.TableKind,
		fmt.Sprintf("instances:%d", len(cfg.Instances)),
		fmt.Sprintf("honest:%d", len(cfg.Honest)), fmt.Sprintf("byz:%d", len(cfg.Byz)), fmt.Sprintf("silent:%d", len(cfg.Silent)),
		fmt.Sprintf("max-round:%d", min(int(w.Stats.MaxRound), 6)),
		fmt.Sprintf("all-decided:%v", cr.AllDecided),
		fmt.Sprintf("decisions>=2-in-an-instance:%v", multi),
		fmt.Sprintf("inputs-differ:%v", inputsDiffer),
		fmt.Sprintf("byz-accepted>0:%v", w.Stats.ByzAccepted > 0),
		fmt.Sprintf("byz-rejected>0:%v", w.Stats.ByzRejected > 0),
		fmt.Sprintf("sways>0:%v", w.Stats.Sways > 0),
		fmt.Sprintf("skip-round>0:%v", w.Stats.SkipsRound > 0),
		fmt.Sprintf("rebroadcast>0:%v", w.Stats.Rebroadcasts > 0),
		fmt.Sprintf("dropped>0:%v", w.Stats.Dropped > 0),
		fmt.Sprintf("hijack-converge:%v/commit:%v", w.Stats.HijackConverges > 0, w.Stats.HijackCommits > 0),
		fmt.Sprintf("forged-flood>0:%v", w.Stats.ForgedFloods > 0),
		fmt.Sprintf("two-stage-validation-path:%v", cfg.PartialPath),
		fmt.Sprintf("transplanted-justification>0:%v", w.Stats.Transplants > 0),
		fmt.Sprintf("supp-variant>0:%v", w.Stats.SuppVariants > 0),
		fmt.Sprintf("validated-then-queued>0:%v", w.Stats.StagedReceived > 0),
		fmt.Sprintf("participant-with-diverged-base-view:%v", len(cfg.Divergent) > 0 && !cfg.DivergentSupp),
		fmt.Sprintf("participant-with-diverged-supplemental-data:%v", len(cfg.Divergent) > 0 && cfg.DivergentSupp),
		fmt.Sprintf("inputs-around-max-chain-length:%v", longInputs),
		fmt.Sprintf("greedy-decider:%v/realised:%v", ro.GreedyDecide, w.Stats.KillDecisions > 0),
	}
	if unanimous {
		labels = append(labels, "unanimous-mode")
	}
	for id, c := range other {
		labels = append(labels, fmt.Sprintf("other-property-failure:%s", id))
		_ = c
	}
	vev.Case(prop, digest, nt, labels...)
	vev.Sample(prop, func() any {
		tr := w.Trace
		if len(tr) > 25 {
			tr = tr[:25]
		}
		decided := map[string]int{}
		for _, n := range w.Nodes {
			for inst, d := range n.Decided {
				decided[fmt.Sprintf("node%d/inst%d", n.ID, inst)] = d.J.Vote.Value.Len()
			}
		}
		return map[string]any{"honest": cfg.Honest, "silent": cfg.Silent, "byzantine": cfg.Byz, "instances": len(cfg.Instances), "profile": profile, "table": cfg.TableKind,
			"inputs_instance0": fmt.Sprint(cfg.Instances[0].Paths), "stats": fmt.Sprintf("%+v", w.Stats), "decided_chain_lengths": decided, "first_events": tr}
	})
}

func joinLines(s []string) string {
	out := ""
	for i, l := range s {
		if i > 0 {
			out += "\n    "
		}
		out += l
	}
	return out
}

func TestC01Agreement(t *testing.T) { rapid.Check(t, func(t *rapid.T) { runWorld(t, "C01") }) }
func TestC02Validity(t *testing.T)  { rapid.Check(t, func(t *rapid.T) { runWorld(t, "C02") }) }
func TestC03Proofs(t *testing.T)    { rapid.Check(t, func(t *rapid.T) { runWorld(t, "C03") }) }
func TestC07Discipline(t *testing.T) {
	rapid.Check(t, func(t *rapid.T) { runWorld(t, "C07") })
}

var _ = gpbft.INITIAL_PHASE
