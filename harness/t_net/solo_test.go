package t_net

import (
	"fmt"
	"testing"

	"github.com/filecoin-project/go-f3/gpbft"
	"github.com/filecoin-project/go-f3/verifharness/vev"
	"github.com/filecoin-project/go-f3/verifharness/vnet"
	"pgregory.net/rapid"
)

// runSolo: one real participant under a puppet committee (see vnet.Solo). The
// monitors of C07 judge everything it emits; its decision is checked as a
// finality proof (C03).
func runSolo(t *rapid.T, prop string) {
	s, err := vnet.NewSolo(t)
	if err != nil {
		t.Fatalf("HARNESS: NewSolo: %v", err)
	}
	w := s.W
	var fails []failure
	w.Fail = func(id, sig, msg string) {
		if id == prop {
			tr := w.Trace
			if len(tr) > 80 {
				tr = tr[len(tr)-80:]
			}
			fails = append(fails, failure{id, sig, msg, append([]string(nil), tr...)})
		}
	}
	w.Start(0)
	steps := rapid.IntRange(5, vev.IntEnv("VERIF_SOLO_STEPS", 160)).Draw(t, "steps")
	var actions []string
	report := func() {
		if len(fails) > 0 {
			f := fails[0]
			vev.Fail(t, f.id, f.sig, "%s\n  solo world: participant %v, puppets %v, table %s, input %v\n  last events:\n    %s", f.msg, w.Cfg.Honest, w.Cfg.Byz, w.Cfg.TableKind, w.Cfg.Instances[0].Paths, joinLines(f.trace))
		}
	}
	for i := 0; i < steps && !s.Decided(); i++ {
		if s.Stats.MaxRound >= 10 {
			break // keep phase timeouts within time.Duration
		}
		actions = append(actions, s.Step(t))
		report()
	}
	proofs := w.CheckDecisionProofs()
	report()
	emR1, cb, outside := s.P.Mon.Labels["emission-round>=1"], s.P.Mon.Labels["commit-bottom"], s.P.Mon.Labels["vote-outside-own-input"]
	for k, v := range s.P.Mon.Labels {
		vev.LabelN(prop, "solo-mon:"+k, int64(v))
	}
	nt := emR1 > 0 || cb > 0 || outside > 0
	if prop == "C03" {
		nt = proofs > 0 || s.Decided()
	}
	phases := 0
	for range s.Stats.Phases {
		phases++
	}
	vev.Case(prop, vev.Digest("solo", prop, fmt.Sprint(w.Cfg.Honest, w.Cfg.Byz, w.Cfg.TableKind), fmt.Sprint(actions)), nt,
		"solo", "solo-table:"+w.Cfg.TableKind,
		fmt.Sprintf("solo-max-round:%d", min(int(s.Stats.MaxRound), 6)),
		fmt.Sprintf("solo-decided:%v", s.Decided()),
		fmt.Sprintf("solo-sways>0:%v", w.Stats.Sways > 0),
		fmt.Sprintf("solo-skip-round>0:%v", w.Stats.SkipsRound > 0),
		fmt.Sprintf("solo-vote-outside-own-input:%v", outside > 0),
		fmt.Sprintf("solo-commit-bottom:%v", cb > 0))
	vev.Sample(prop, func() any {
		a := actions
		if len(a) > 40 {
			a = a[:40]
		}
		return map[string]any{"kind": "solo", "participant": w.Cfg.Honest, "puppets": w.Cfg.Byz, "table": w.Cfg.TableKind, "stats": fmt.Sprintf("%+v", s.Stats), "first_actions": a}
	})
}

func TestC07Solo(t *testing.T) { rapid.Check(t, func(t *rapid.T) { runSolo(t, "C07") }) }
func TestC03Solo(t *testing.T) { rapid.Check(t, func(t *rapid.T) { runSolo(t, "C03") }) }

var _ = gpbft.INITIAL_PHASE
