package t_net

import (
	"os"
	"fmt"
	"testing"

	"github.com/filecoin-project/go-f3/gpbft"
	"github.com/filecoin-project/go-f3/verifharness/vev"
	"github.com/filecoin-project/go-f3/verifharness/vnet"
)

// Plain regression scenarios (no generator) for confirmed root causes.

type failRec struct{ id, sig, msg string }

func scripted(cfg *vnet.Config) (*vnet.World, *[]failRec) {
	var fails []failRec
	w, err := vnet.NewWorld(cfg, nil)
	if err != nil {
		panic(err)
	}
	w.Fail = func(id, sig, msg string) { fails = append(fails, failRec{id, sig, msg}) }
	return w, &fails
}

func among(ids ...gpbft.ActorID) func(gpbft.ActorID) bool {
	return func(x gpbft.ActorID) bool {
		for _, id := range ids {
			if id == x {
				return true
			}
		}
		return false
	}
}

// A participant still in QUALITY skips to round 1 on a weak quorum of PREPARE
// plus a CONVERGE justified by COMMIT for bottom whose value is not one of its
// candidates; its CONVERGE timeout must still yield a PREPARE and re-arm the alarm
// (found by TestC07Discipline in the thorough tier, clause d; fixed in /repo).
func TestC07RegressionSkipFromQualityOnBottomJustification(t *testing.T) {
	if os.Getenv("VERIF_SKIP_REGRESSION") != "" {
		t.Skip("development aid: measuring what the generated search finds on its own")
	}
	// members 1..4, equal power; 1,2,3 share the input [b,t], 4 (the laggard) has [b,t']
	cfg := vnet.ManualConfig([]int64{10, 10, 10, 10}, [][]int{{0}, {0}, {0}, {1}})
	w, fails := scripted(cfg)
	for i := 0; i < 3; i++ {
		w.Start(i)
	}
	for i := 0; i < 3; i++ {
		w.FireAlarm(i) // the start alarm: INITIAL -> QUALITY
	}
	inst := cfg.First
	lag := gpbft.ActorID(4)
	active := among(1, 2, 3)
	to := func(p *vnet.Pending) gpbft.ActorID { return w.At(p.To).ID }
	// node 1 hears QUALITY from 1,2,3 (strong quorum for [b,t]); 2 and 3 only their own
	w.DeliverMatching(func(p *vnet.Pending) bool {
		return p.Msg.Vote.Phase == gpbft.QUALITY_PHASE && (to(p) == 1 && active(p.Msg.Sender) || to(p) == p.Msg.Sender && active(to(p)))
	})
	for _, id := range []gpbft.ActorID{1, 2, 3} {
		w.FireAlarm(w.ByIdx[id]) // QUALITY timeout: 1 prepares [b,t], 2 and 3 the base
	}
	phaseAmongActive := func(ph gpbft.Phase, round uint64) int {
		return w.DeliverMatching(func(p *vnet.Pending) bool {
			return p.Msg.Vote.Phase == ph && p.Msg.Vote.Round == round && active(to(p)) && active(p.Msg.Sender)
		})
	}
	phaseAmongActive(gpbft.PREPARE_PHASE, 0)
	for _, id := range []gpbft.ActorID{1, 2, 3} {
		w.FireAlarm(w.ByIdx[id]) // PREPARE timeout without quorum: COMMIT bottom
	}
	phaseAmongActive(gpbft.COMMIT_PHASE, 0) // strong quorum of COMMIT bottom: round 1, CONVERGE
	phaseAmongActive(gpbft.CONVERGE_PHASE, 1)
	for _, id := range []gpbft.ActorID{1, 2, 3} {
		if pr := w.NodeOf(id).P.Progress(); pr.Round != 1 || pr.Phase != gpbft.CONVERGE_PHASE {
			dumpTrace(t, w)
			t.Fatalf("HARNESS: scenario did not reach round 1 CONVERGE on node %d: %+v", id, pr)
		}
		w.FireAlarm(w.ByIdx[id]) // CONVERGE timeout: PREPARE of round 1
	}
	// the laggard starts only now (its QUALITY timeout lies in the future)
	w.Start(w.ByIdx[lag])
	w.FireAlarm(w.ByIdx[lag])
	if pr := w.NodeOf(lag).P.Progress(); pr.Round != 0 || pr.Phase != gpbft.QUALITY_PHASE {
		t.Fatalf("HARNESS: the laggard left QUALITY early: %+v", pr)
	}
	// the laggard now hears PREPARE of round 1 from a weak quorum and node 1's CONVERGE for [b,t]
	w.DeliverMatching(func(p *vnet.Pending) bool {
		return to(p) == lag && p.Msg.Vote.Round == 1 && p.Msg.Vote.Phase == gpbft.PREPARE_PHASE && active(p.Msg.Sender)
	})
	w.DeliverMatching(func(p *vnet.Pending) bool {
		return to(p) == lag && p.Msg.Vote.Round == 1 && p.Msg.Vote.Phase == gpbft.CONVERGE_PHASE && p.Msg.Sender == 1
	})
	if pr := w.NodeOf(lag).P.Progress(); pr.Round != 1 || pr.Phase != gpbft.CONVERGE_PHASE {
		t.Fatalf("HARNESS: the laggard did not skip to round 1: %+v", pr)
	}
	w.FireAlarm(w.ByIdx[lag]) // CONVERGE timeout of the laggard
	if os.Getenv("VERIF_DUMP") != "" {
		dumpTrace(t, w)
	}
	_ = inst
	for _, f := range *fails {
		if f.id == "C07" {
			vev.Fail(t, "C07", f.sig, "scripted skip-from-QUALITY scenario: %s", f.msg)
		}
	}
	ln := w.NodeOf(lag)
	if pr := ln.P.Progress(); pr.Phase != gpbft.PREPARE_PHASE || !ln.AlarmSet {
		vev.Fail(t, "C07", "C07/d/api-error", "scripted skip-from-QUALITY scenario: after its CONVERGE timeout the laggard is at %+v with alarm set=%v (expected PREPARE of round 1 and an armed alarm)", pr, ln.AlarmSet)
	}
	vev.Case("C07", vev.Digest("regr-skip-from-quality"), true, "regression")
	_ = fmt.Sprint
}

func dumpTrace(t *testing.T, w *vnet.World) {
	for _, l := range w.Trace {
		t.Log(l)
	}
}

// Scripted scenario: sway at the COMMIT timeout. Members 1,2,3 prepare and commit
// [b,t] in round 0 but nobody sees a COMMIT quorum; member 4 (other input, proposal
// = base) commits bottom, sees COMMITs for [b,t] and must carry that value (not a
// candidate of its own, but possibly decided) into round 1; all four must end up
// deciding [b,t] without any monitor complaint.
func TestC07ScenarioSwayAtCommitTimeout(t *testing.T) {
	cfg := vnet.ManualConfig([]int64{10, 10, 10, 10}, [][]int{{0}, {0}, {0}, {1}})
	w, fails := scripted(cfg)
	for i := range w.Nodes {
		w.Start(i)
	}
	for i := range w.Nodes {
		w.FireAlarm(i) // INITIAL -> QUALITY
	}
	all := func(ph gpbft.Phase, round uint64) int {
		return w.DeliverMatching(func(p *vnet.Pending) bool { return p.Msg.Vote.Phase == ph && p.Msg.Vote.Round == round })
	}
	all(gpbft.QUALITY_PHASE, 0)
	for i := range w.Nodes {
		w.FireAlarm(i) // QUALITY timeout: 1,2,3 prepare [b,t], 4 prepares the base
	}
	all(gpbft.PREPARE_PHASE, 0) // 1,2,3 see the PREPARE quorum and commit [b,t]
	w.FireAlarm(3)              // member 4: PREPARE timeout, commits bottom
	// COMMITs of round 0: member 3's is withheld from everybody, so nobody sees a quorum
	w.DeliverMatching(func(p *vnet.Pending) bool {
		return p.Msg.Vote.Phase == gpbft.COMMIT_PHASE && p.Msg.Vote.Round == 0 && p.Msg.Sender != 3
	})
	for i, n := range w.Nodes {
		if n.P.Progress().Round == 0 {
			w.FireAlarm(i) // COMMIT timeout: round 1, CONVERGE
		}
	}
	for _, n := range w.Nodes {
		if pr := n.P.Progress(); pr.Round != 1 || pr.Phase != gpbft.CONVERGE_PHASE {
			dumpTrace(t, w)
			t.Fatalf("HARNESS: node %d is at %+v, expected round 1 CONVERGE", n.ID, pr)
		}
	}
	all(gpbft.CONVERGE_PHASE, 1)
	for i := range w.Nodes {
		w.FireAlarm(i) // CONVERGE timeout: everybody prepares the winner
	}
	if w.Stats.Sways == 0 {
		dumpTrace(t, w)
		t.Fatalf("HARNESS: the scenario did not exercise the sway (no sway logged)")
	}
	cr := w.Close(nil, 4000, 0)
	w.CheckAgreement()
	w.CheckValidity()
	w.CheckDecisionProofs()
	for _, f := range *fails {
		vev.Fail(t, f.id, f.sig, "scripted sway-at-COMMIT-timeout scenario: %s", f.msg)
	}
	if !cr.AllDecided {
		vev.Fail(t, "C07", "C07/scenario/sway-not-decided", "scripted sway-at-COMMIT-timeout scenario: not every participant decided")
	}
	want := vnet.PathChain(cfg.Root, []int{0})
	for _, n := range w.Nodes {
		if d := n.Decided[cfg.First]; d == nil || !d.J.Vote.Value.Eq(want) {
			vev.Fail(t, "C07", "C07/scenario/sway-wrong-decision", "scripted sway-at-COMMIT-timeout scenario: node %d did not decide the value that three of four prepared and committed", n.ID)
		}
	}
	vev.Case("C07", vev.Digest("scenario-sway-by-converge"), true, "regression")
}
