package t_net

import (
	"fmt"
	"testing"

	"github.com/filecoin-project/go-f3/verifharness/vev"
	"github.com/filecoin-project/go-f3/verifharness/vnet"
	"pgregory.net/rapid"
)

// TestC06Termination: generated pre-stabilisation prefix, then the timely regime.
func TestC06Termination(t *testing.T) {
	rapid.Check(t, func(t *rapid.T) {
		withByz := rapid.Bool().Draw(t, "withbyz")
		gen := vnet.GenOpts{MaxMembers: maxMembers(), MaxInstances: 3, MaxPathLen: 5, AllowByz: withByz, AllowSilent: true, HonestQuorum: true, MaxExponent: 1.5, ForceByzIfAble: withByz}
		if withByz {
			gen.MaxExponent = 1.3 // the +40 bound needs deep rounds: keep time.Duration in range
		}
		if rapid.IntRange(0, map[bool]int{true: 11, false: 39}[vev.Thorough()]).Draw(t, "longchains") == 0 {
			gen.MinPathLen, gen.MaxPathLen = 124, 136
		}
		profile := rapid.SampledFrom(vnet.Profiles).Draw(t, "profile")
		if profile == "gate" || profile == "laggard" || profile == "rotlag" || profile == "rules" {
			gen.MinPathLen = max(gen.MinPathLen, 1)
			gen.Unanimous = rapid.Bool().Draw(t, "gateunanimous")
		}
		cfg := vnet.GenConfig(t, gen)
		var fails []failure
		w, err := vnet.NewWorld(cfg, nil)
		if err != nil {
			t.Fatalf("HARNESS: NewWorld: %v", err)
		}
		w.Fail = func(id, sig, msg string) {
			if id == "C06" {
				fails = append(fails, failure{id, sig, msg, nil})
			}
		}
		w.RunPrefix(t, vnet.RunOpts{Profile: profile, MaxSteps: maxSteps(), AllowDrop: false, AllowByz: withByz})
		// state at stabilisation
		phases := map[string]bool{}
		started := 0
		for _, n := range w.Nodes {
			if n.Started {
				started++
				pr := n.P.Progress()
				phases[fmt.Sprintf("%d/%d/%s", pr.ID, pr.Round, pr.Phase)] = true
			}
		}
		bound := uint64(6)
		if w.ByzEverSent {
			bound = 40
		}
		prefixEvents := len(w.Trace)
		cr := w.Close(t, vev.IntEnv("VERIF_C06_CLOSESTEPS", 40000), bound)
		inputsDiffer := false
		for _, ic := range cfg.Instances {
			first := ""
			for i, id := range cfg.Honest {
				p := fmt.Sprint(ic.Paths[id])
				if i == 0 {
					first = p
				} else if p != first {
					inputsDiffer = true
				}
			}
		}
		label := "decided"
		switch {
		case cr.BoundExceeded:
			tr := w.Trace
			if len(tr) > 150 {
				tr = tr[len(tr)-150:]
			}
			vev.Fail(t, "C06", "C06/termination/round-bound-exceeded",
				"an honest participant reached round %d > R+%d (R=%d at stabilisation, Byzantine ever sent=%v) before all honest participants decided\n  world: honest=%v silent=%v byz=%v instances=%d profile=%s prefix-events=%d\n  %s\n  last events:\n    %s",
				cr.MaxRoundAfter, bound, cr.RoundAtStart, w.ByzEverSent, cfg.Honest, cfg.Silent, cfg.Byz, len(cfg.Instances), profile, prefixEvents, w.Summary(), joinLines(tr))
		case cr.Stalled:
			tr := w.Trace
			if len(tr) > 120 {
				tr = tr[len(tr)-120:]
			}
			vev.Fail(t, "C06", "C06/termination/stalled", "timely regime: %s while not every started honest participant has decided and the decided ones have nothing in flight\n  world: honest=%v silent=%v byz=%v instances=%d profile=%s\n  %s\n  last events:\n    %s", cr.StalledNote, cfg.Honest, cfg.Silent, cfg.Byz, len(cfg.Instances), profile, w.Summary(), joinLines(tr))
		case !cr.AllDecided:
			// step budget hit or nothing left to do without everybody deciding
			label = "inconclusive-step-budget"
			if w.Stats.Delivered > 0 && len(w.Pool) == 0 {
				alarms := 0
				for _, n := range w.Nodes {
					if n.AlarmSet {
						alarms++
					}
				}
				if alarms == 0 {
					tr := w.Trace
					if len(tr) > 100 {
						tr = tr[len(tr)-100:]
					}
					vev.Fail(t, "C06", "C06/termination/stuck-without-events", "timely regime: no message in flight and no alarm set, yet not every started honest participant decided\n  world: honest=%v silent=%v byz=%v profile=%s\n  %s\n  last events:\n    %s", cfg.Honest, cfg.Silent, cfg.Byz, profile, w.Summary(), joinLines(tr))
				}
			}
		}
		nt := cr.RoundAtStart >= 1 || len(phases) >= 2 || inputsDiffer || w.ByzEverSent
		vev.Case("C06", vev.Digest("C06", fmt.Sprint(cfg.Honest, cfg.Silent, cfg.Byz, cfg.First), fmt.Sprint(cfg.Instances[0].Paths), profile, prefixEvents, w.Stats), nt,
			"profile:"+profile, "outcome:"+label, fmt.Sprintf("byz-ever-sent:%v", w.ByzEverSent),
			fmt.Sprintf("round-at-stabilisation:%d", min(int(cr.RoundAtStart), 6)),
			fmt.Sprintf("rounds-needed-after:%d", min(int(cr.MaxRoundAfter-min(cr.MaxRoundAfter, cr.RoundAtStart)), 8)),
			fmt.Sprintf("distinct-progress-states-at-stabilisation:%d", min(len(phases), 4)),
			fmt.Sprintf("inputs-differ:%v", inputsDiffer), fmt.Sprintf("started-at-stabilisation:%d/%d", started, len(w.Nodes)))
		vev.Sample("C06", func() any {
			return map[string]any{"honest": cfg.Honest, "silent": cfg.Silent, "byzantine": cfg.Byz, "profile": profile, "prefix_events": prefixEvents, "round_at_stabilisation": cr.RoundAtStart,
				"max_round_after": cr.MaxRoundAfter, "bound": bound, "all_decided": cr.AllDecided, "closing_steps": cr.Steps, "progress_states_at_stabilisation": len(phases)}
		})
		_ = fails
	})
}
