package t_arith

import (
	"fmt"
	"math"
	"math/big"
	"testing"

	"github.com/filecoin-project/go-f3/gpbft"
	"github.com/filecoin-project/go-f3/verifharness/vev"
	"github.com/filecoin-project/go-f3/verifharness/vgen"
	"github.com/filecoin-project/go-f3/verifharness/vref"
	"pgregory.net/rapid"
)

const c08 = "C08"

func TestMain(m *testing.M) {
	vev.Rule(c08, "exhaustive: every (part, whole) with 0<=part<=whole<=65535 against integer arithmetic 3p>=2w / 3p>w and the quorum-intersection bound; "+
		"generated: int64 pairs up to MaxInt64/2 vs math/big, power tables from a mixture (uniform/skewed/whale/dust/2^200) vs independent big-integer scaling, "+
		"real tallies fed generated votes vs brute-force reachability. Non-trivial = boundary pair (|3p-2w|<=3 or |3p-w|<=3), table with dust/huge/tie entries, tally where the could-reach verdict is within one voter of flipping; distinct by case digest")
	vev.Main(m)
}

// TestC08Exhaustive enumerates the whole 16-bit domain.
func TestC08Exhaustive(t *testing.T) {
	shard, shards := vev.Shard()
	var pairs, boundary int64
	for whole := int64(shard); whole <= 0xffff; whole += int64(shards) {
		minStrong := int64(-1)
		for part := int64(0); part <= whole; part++ {
			got := gpbft.IsStrongQuorum(part, whole)
			want := 3*part >= 2*whole
			if got != want {
				vev.Fail(t, c08, "C08/strong-quorum/threshold", "IsStrongQuorum(%d,%d)=%v, want %v", part, whole, got, want)
			}
			if got && minStrong < 0 {
				minStrong = part
			}
			if gpbft.VerifHasWeakQuorum(part, whole) && !(3*part > whole) {
				vev.Fail(t, c08, "C08/weak-quorum/not-above-third", "hasWeakQuorum(%d,%d)=true but 3*part <= whole", part, whole)
			}
			d := 3*part - 2*whole
			d2 := 3*part - whole
			if (d >= -3 && d <= 3) || (d2 >= -3 && d2 <= 3) {
				boundary++
				if boundary%64 == 0 { // keep the digest set small: every 64th boundary pair
					vev.Nontrivial(c08, vev.Digest("pair", part, whole))
				}
			}
		}
		pairs += whole + 1
		// intersection of any two strong quorums: at least 2*minStrong - whole
		if minStrong < 0 {
			vev.Fail(t, c08, "C08/strong-quorum/whole-not-quorum", "no part of %d is a strong quorum", whole)
		}
		overlap := 2*minStrong - whole
		if 3*overlap < whole { // overlap >= ceil(whole/3)
			vev.Fail(t, c08, "C08/intersection/below-third", "whole=%d minimal quorum %d overlap %d < whole/3", whole, minStrong, overlap)
		}
		// every tolerated faulty coalition B (3B < whole) is strictly smaller than the overlap
		if whole > 0 {
			maxB := (whole - 1) / 3
			if !(overlap > maxB) {
				vev.Fail(t, c08, "C08/intersection/not-above-faulty", "whole=%d overlap %d <= max faulty %d", whole, overlap, maxB)
			}
		}
	}
	vev.Count(c08, pairs, "exhaustive-pairs")
	vev.LabelN(c08, "exhaustive-boundary-pairs", boundary)
	if shards == 1 || shard == 0 {
		vev.Exhaustive(c08, "all (part, whole) pairs with 0<=part<=whole<=65535 enumerated (split over shards by whole mod shards)")
	}
	vev.Sample(c08, func() any {
		return map[string]any{"kind": "exhaustive-slice", "shard": shard, "shards": shards, "pairs": pairs, "boundary_pairs": boundary}
	})
}

// TestC08Int64 samples the larger int64 domain (no overflow as long as
// 2*whole fits), concentrating on the thresholds.
func TestC08Int64(t *testing.T) {
	rapid.Check(t, func(t *rapid.T) {
		whole := rapid.OneOf(
			rapid.Int64Range(0, math.MaxInt64/2),
			rapid.Int64Range(0, 1<<20),
			rapid.Int64Range(math.MaxInt64/2-1000, math.MaxInt64/2),
		).Draw(t, "whole")
		var part int64
		switch rapid.IntRange(0, 2).Draw(t, "mode") {
		case 0:
			part = rapid.Int64Range(0, whole).Draw(t, "part")
		case 1: // around two thirds
			c := new(big.Int).Mul(big.NewInt(whole), big.NewInt(2))
			c.Quo(c, big.NewInt(3))
			part = c.Int64() + rapid.Int64Range(-3, 3).Draw(t, "d")
		default: // around one third
			part = whole/3 + rapid.Int64Range(-3, 3).Draw(t, "d")
		}
		if part < 0 {
			part = 0
		}
		if part > whole {
			part = whole
		}
		got := gpbft.IsStrongQuorum(part, whole)
		want := vref.StrongQuorum(part, whole)
		if got != want {
			vev.Fail(t, c08, "C08/strong-quorum/threshold-int64", "IsStrongQuorum(%d,%d)=%v want %v", part, whole, got, want)
		}
		if gpbft.VerifHasWeakQuorum(part, whole) && !vref.MoreThanThird(part, whole) {
			vev.Fail(t, c08, "C08/weak-quorum/not-above-third-int64", "hasWeakQuorum(%d,%d) but not above a third", part, whole)
		}
		d := new(big.Int).Sub(new(big.Int).Mul(big.NewInt(part), big.NewInt(3)), new(big.Int).Mul(big.NewInt(whole), big.NewInt(2)))
		nt := d.CmpAbs(big.NewInt(3)) <= 0
		vev.Case(c08, vev.Digest("i64", part, whole), nt, "int64-pair")
		vev.Sample(c08, func() any { return map[string]any{"kind": "int64-pair", "part": part, "whole": whole, "strong": got} })
	})
}

// TestC08Scaling: scaled powers of generated tables.
func TestC08Scaling(t *testing.T) {
	rapid.Check(t, func(t *rapid.T) {
		maxN := 40
		if vev.Thorough() {
			maxN = 400
		}
		spec := vgen.Entries(t, "tbl", 1, maxN)
		entries := spec.Entries
		refScaled, refTotal := vref.Scaled(entries)
		scaled, total, err := entries.Scaled()
		if err != nil {
			vev.Fail(t, c08, "C08/scaling/error", "Scaled() failed on a well-formed table: %v", err)
		}
		pt := vgen.Table(entries)
		check := func(name string, sc []int64, tot int64, ents gpbft.PowerEntries) {
			var sum int64
			for i := range sc {
				if sc[i] < 0 || sc[i] > 0xffff {
					vev.Fail(t, c08, "C08/scaling/range", "%s: scaled[%d]=%d out of [0,65535]", name, i, sc[i])
				}
				sum += sc[i]
			}
			if sum != tot {
				vev.Fail(t, c08, "C08/scaling/total-mismatch", "%s: reported total %d != sum %d", name, tot, sum)
			}
			if tot > 0xffff {
				vev.Fail(t, c08, "C08/scaling/sum", "%s: scaled total %d > 65535", name, tot)
			}
			for i := range sc {
				for j := range sc {
					if ents[i].Power.Int.Cmp(ents[j].Power.Int) >= 0 && sc[i] < sc[j] {
						vev.Fail(t, c08, "C08/scaling/order", "%s: power[%d]>=power[%d] but scaled %d<%d", name, i, j, sc[i], sc[j])
					}
				}
			}
		}
		check("PowerEntries.Scaled", scaled, total, entries)
		check("PowerTable", pt.ScaledPower, pt.ScaledTotal, pt.Entries)
		// both implementations and the independent big-integer computation agree,
		// so every consumer sees the same threshold
		for i := range entries {
			idx := pt.Lookup[entries[i].ID]
			if scaled[i] != pt.ScaledPower[idx] {
				vev.Fail(t, c08, "C08/scaling/disagree", "entry %d: Scaled()=%d PowerTable=%d", entries[i].ID, scaled[i], pt.ScaledPower[idx])
			}
			if scaled[i] != refScaled[i] {
				vev.Fail(t, c08, "C08/scaling/not-floor", "entry %d: scaled %d, floor(65535*p/total)=%d", entries[i].ID, scaled[i], refScaled[i])
			}
		}
		if total != refTotal || pt.ScaledTotal != refTotal {
			vev.Fail(t, c08, "C08/scaling/total-disagree", "totals %d / %d / ref %d", total, pt.ScaledTotal, refTotal)
		}
		if err := pt.Validate(); err != nil {
			vev.Fail(t, c08, "C08/scaling/validate", "table built by Add does not Validate: %v", err)
		}
		// the same members added in several calls, in a generated order (a later call may dwarf
		// what is already there, so earlier members' scaled power has to drop, possibly to 0):
		// the result must be the same table
		batches := 1
		if len(entries) > 1 {
			order := make([]int, len(entries))
			for i := range order {
				order[i] = i
			}
			for i := len(order) - 1; i > 0; i-- {
				j := rapid.IntRange(0, i).Draw(t, "addorder")
				order[i], order[j] = order[j], order[i]
			}
			inc := gpbft.NewPowerTable()
			for pos := 0; pos < len(order); {
				k := rapid.IntRange(1, len(order)-pos).Draw(t, "batch")
				var b gpbft.PowerEntries
				for _, i := range order[pos : pos+k] {
					b = append(b, entries[i])
				}
				if err := inc.Add(b...); err != nil {
					vev.Fail(t, c08, "C08/scaling/add-error", "Add of a batch of well-formed entries failed: %v", err)
				}
				pos += k
				batches++
				// after every call the table is internally consistent
				check(fmt.Sprintf("PowerTable after %d Add calls", batches-1), inc.ScaledPower, inc.ScaledTotal, inc.Entries)
				if err := inc.Validate(); err != nil {
					vev.Fail(t, c08, "C08/scaling/validate", "table after %d Add calls does not Validate: %v", batches-1, err)
				}
			}
			if inc.ScaledTotal != pt.ScaledTotal || len(inc.Entries) != len(pt.Entries) {
				vev.Fail(t, c08, "C08/scaling/incremental-differs", "members added in %d calls: scaled total %d, added at once: %d", batches-1, inc.ScaledTotal, pt.ScaledTotal)
			}
			for i := range pt.Entries {
				j, ok := inc.Lookup[pt.Entries[i].ID]
				if !ok || inc.ScaledPower[j] != pt.ScaledPower[i] || inc.Entries[j].Power.Int.Cmp(pt.Entries[i].Power.Int) != 0 {
					vev.Fail(t, c08, "C08/scaling/incremental-differs", "member %d: scaled power differs between a table built by several Add calls and one built at once", pt.Entries[i].ID)
				}
			}
		}
		hasZero := false
		for _, s := range scaled {
			if s == 0 {
				hasZero = true
			}
		}
		nt := hasZero || spec.Kind == "huge" || spec.Kind == "dust" || len(entries) > 1
		lbl := "table-" + spec.Kind
		z := ""
		if hasZero {
			z = "table-with-zero-scaled-member"
		}
		vev.Case(c08, vev.Digest("tbl", fmt.Sprint(entries)), nt, lbl, z, fmt.Sprintf("table-built-incrementally:%v", batches > 2))
		vev.Sample(c08, func() any {
			pw := []string{}
			for i, e := range entries {
				if i < 6 {
					pw = append(pw, e.Power.String())
				}
			}
			return map[string]any{"kind": "table", "shape": spec.Kind, "n": len(entries), "first_powers": pw, "scaled_total": total}
		})
	})
}

// TestC08Tally feeds a real quorumState votes of known weight.
func TestC08Tally(t *testing.T) {
	base := &gpbft.TipSet{Epoch: 1, Key: []byte("base"), PowerTable: gpbft.MakeCid([]byte("pt"))}
	mk := func(n int) *gpbft.ECChain {
		c := &gpbft.ECChain{TipSets: []*gpbft.TipSet{base}}
		for i := 0; i < n; i++ {
			c = c.Append(&gpbft.TipSet{Epoch: int64(2 + i), Key: []byte(fmt.Sprintf("v%d-%d", n, i)), PowerTable: base.PowerTable})
		}
		return c
	}
	values := []*gpbft.ECChain{mk(1), mk(2), mk(3), {}}
	rapid.Check(t, func(t *rapid.T) {
		spec := vgen.Entries(t, "tbl", 1, 12)
		pt := vgen.Table(spec.Entries)
		refScaled, refTotal := vref.Scaled(pt.Entries)
		q := gpbft.VerifNewQuorumState(pt)
		support := map[gpbft.ECChainKey]int64{}
		voted := map[int]bool{}
		var votedPower int64
		nVotes := rapid.IntRange(0, len(pt.Entries)+3).Draw(t, "nvotes")
		near := false
		for k := 0; k < nVotes; k++ {
			idx := rapid.IntRange(0, len(pt.Entries)-1).Draw(t, "voter")
			v := values[rapid.IntRange(0, len(values)-1).Draw(t, "value")]
			q.Receive(pt.Entries[idx].ID, v, []byte{byte(idx), 1})
			if !voted[idx] { // first vote per sender counts, later ones are equivocations
				voted[idx] = true
				votedPower += refScaled[idx]
				support[v.Key()] += refScaled[idx]
			}
			// check every value after every vote
			unvoted := refTotal - votedPower
			for _, val := range values {
				key := val.Key()
				s := support[key]
				if got, want := q.HasStrongQuorumFor(key), hasKey(support, key) && vref.StrongQuorum(s, refTotal); got != want {
					vev.Fail(t, c08, "C08/tally/strong-quorum", "HasStrongQuorumFor: got %v want %v (support %d total %d)", got, want, s, refTotal)
				}
				if !q.CouldReachStrongQuorumFor(key, false) {
					// claimed impossible: even if every unvoted member votes for it, no strong quorum
					if vref.StrongQuorum(s+unvoted, refTotal) {
						vev.Fail(t, c08, "C08/tally/could-reach-unsound", "reported unreachable but support %d + unvoted %d reaches 2/3 of %d", s, unvoted, refTotal)
					}
				}
				if !q.CouldReachStrongQuorumFor(key, true) {
					// with an equivocating coalition B, 3B < total
					maxB := int64(0)
					if refTotal > 0 {
						maxB = (refTotal - 1) / 3
					}
					best := s + unvoted + maxB
					if best > refTotal {
						best = refTotal
					}
					if vref.StrongQuorum(best, refTotal) {
						vev.Fail(t, c08, "C08/tally/could-reach-adversary-unsound", "reported unreachable with adversary but %d+%d+%d reaches 2/3 of %d", s, unvoted, maxB, refTotal)
					}
				}
				dd := 3*(s+unvoted) - 2*refTotal
				if dd >= -3*maxScaled(refScaled) && dd <= 3*maxScaled(refScaled) {
					near = true
				}
			}
			if got, want := q.ReceivedFromStrongQuorum(), vref.StrongQuorum(votedPower, refTotal); got != want {
				vev.Fail(t, c08, "C08/tally/senders-strong", "ReceivedFromStrongQuorum got %v want %v (%d of %d)", got, want, votedPower, refTotal)
			}
			if q.ReceivedFromWeakQuorum() && !vref.MoreThanThird(votedPower, refTotal) {
				vev.Fail(t, c08, "C08/tally/senders-weak", "ReceivedFromWeakQuorum with %d of %d", votedPower, refTotal)
			}
			// a reported quorum result really is one
			for _, val := range values {
				if res, ok := q.FindStrongQuorumFor(val.Key()); ok {
					var sum int64
					lastIdx := -1
					for _, si := range res.Signers {
						if si <= lastIdx {
							vev.Fail(t, c08, "C08/tally/signers-unsorted", "signers %v not strictly increasing", res.Signers)
						}
						lastIdx = si
						sum += refScaled[si]
					}
					if !vref.StrongQuorum(sum, refTotal) {
						vev.Fail(t, c08, "C08/tally/quorum-result-weak", "FindStrongQuorumFor returned signers with %d of %d", sum, refTotal)
					}
				}
			}
		}
		vev.Case(c08, vev.Digest("tally", fmt.Sprint(spec.Entries), fmt.Sprint(voted), fmt.Sprint(support)), near && nVotes > 0, "tally", "tally-"+spec.Kind)
		vev.Sample(c08, func() any {
			return map[string]any{"kind": "tally", "shape": spec.Kind, "n": len(pt.Entries), "votes": nVotes, "voted_power": votedPower, "total": refTotal}
		})
	})
}

func hasKey(m map[gpbft.ECChainKey]int64, k gpbft.ECChainKey) bool { _, ok := m[k]; return ok }

func maxScaled(s []int64) int64 {
	var m int64 = 1
	for _, x := range s {
		if x > m {
			m = x
		}
	}
	return m
}
