package t_wal

import (
	"errors"
	"bytes"
	"fmt"
	"io"
	"os"
	"path/filepath"
	"sort"
	"strings"
	"testing"

	"github.com/filecoin-project/go-f3/internal/writeaheadlog"
	"github.com/filecoin-project/go-f3/verifharness/vev"
	"github.com/filecoin-project/go-f3/verifharness/vgen"
	cbg "github.com/whyrusleeping/cbor-gen"
	"pgregory.net/rapid"
)

const c11 = "C11"

func TestMain(m *testing.M) {
	vev.Rule(c11, "generated histories on a real directory: append (payload 1 B .. 400 KiB so that a few appends cross the 1 MiB rotation threshold) / Rotate / Close / Purge(keep) / reopen / crash (handle abandoned) / crash during an append (the first k bytes of the next record reach the active file: every k for records <= 4 KiB, 64 sampled offsets incl. 0, 1, len-1, len for larger ones); after every reopen and at sampled points All() is compared with a model (set of acknowledged, not purged entries grouped by file): same multiset, byte-identical entries, append order within each file, a torn entry present only if all its bytes were written; Purge(keep) keeps every entry with epoch >= keep and removes every closed file whose entries are all below keep. "+
		"Non-trivial = history with a rotation and a purge and >= 2 restarts, or a torn offset strictly inside a record; distinct by digest of the operation trace")
	vev.Main(m)
}

// HEntry is the harness's log entry type.
type HEntry struct {
	ID      uint64
	Epoch   uint64
	Payload []byte
	// failAfter > 0: the encoder writes failAfter-1 bytes of the encoding and then reports an
	// error, as generated encoders do when a later field exceeds a limit. Not serialised.
	failAfter int
}

var errRejected = errors.New("entry rejected by its encoder")

func (e *HEntry) WALEpoch() uint64 { return e.Epoch }

func (e *HEntry) MarshalCBOR(w io.Writer) error {
	if e.failAfter > 0 {
		full := encode(HEntry{ID: e.ID, Epoch: e.Epoch, Payload: e.Payload})
		_, _ = w.Write(full[:min(e.failAfter-1, len(full))])
		return errRejected
	}
	cw := cbg.NewCborWriter(w)
	if _, err := cw.Write([]byte{0x83}); err != nil {
		return err
	}
	if err := cw.WriteMajorTypeHeader(cbg.MajUnsignedInt, e.ID); err != nil {
		return err
	}
	if err := cw.WriteMajorTypeHeader(cbg.MajUnsignedInt, e.Epoch); err != nil {
		return err
	}
	if err := cw.WriteMajorTypeHeader(cbg.MajByteString, uint64(len(e.Payload))); err != nil {
		return err
	}
	_, err := cw.Write(e.Payload)
	return err
}

func (e *HEntry) UnmarshalCBOR(r io.Reader) error {
	*e = HEntry{}
	cr := cbg.NewCborReader(r)
	maj, extra, err := cr.ReadHeader()
	if err != nil {
		return err
	}
	if maj != cbg.MajArray || extra != 3 {
		return fmt.Errorf("bad entry header")
	}
	if maj, e.ID, err = cr.ReadHeader(); err != nil || maj != cbg.MajUnsignedInt {
		return fmt.Errorf("bad id: %w", orUnexpected(err))
	}
	if maj, e.Epoch, err = cr.ReadHeader(); err != nil || maj != cbg.MajUnsignedInt {
		return fmt.Errorf("bad epoch: %w", orUnexpected(err))
	}
	maj, extra, err = cr.ReadHeader()
	if err != nil || maj != cbg.MajByteString || extra > 1<<22 {
		return fmt.Errorf("bad payload header: %w", orUnexpected(err))
	}
	e.Payload = make([]byte, extra)
	if _, err := io.ReadFull(cr, e.Payload); err != nil {
		return fmt.Errorf("short payload: %w", orUnexpected(err))
	}
	return nil
}

func orUnexpected(err error) error {
	if err == nil || err == io.EOF {
		return io.ErrUnexpectedEOF
	}
	return err
}

func encode(e HEntry) []byte {
	var b bytes.Buffer
	_ = (&e).MarshalCBOR(&b)
	return b.Bytes()
}

type WAL = writeaheadlog.WriteAheadLog[HEntry, *HEntry]

type mfile struct {
	name    string
	entries []HEntry
	closed  bool // known to the current handle as a closed file (purgeable)
	size    int64
}

type model struct {
	files  []*mfile // in creation order
	active *mfile
}

func listWal(dir string) []string {
	des, _ := os.ReadDir(dir)
	var out []string
	for _, d := range des {
		if strings.HasSuffix(d.Name(), ".wal.cbor") {
			out = append(out, d.Name())
		}
	}
	sort.Strings(out)
	return out
}

func walSizes(dir string) map[string]int64 {
	out := map[string]int64{}
	for _, n := range listWal(dir) {
		if st, err := os.Stat(filepath.Join(dir, n)); err == nil {
			out[n] = st.Size()
		}
	}
	return out
}

func (m *model) names() []string {
	var out []string
	for _, f := range m.files {
		out = append(out, f.name)
	}
	sort.Strings(out)
	return out
}

func (m *model) remove(f *mfile) {
	for i, x := range m.files {
		if x == f {
			m.files = append(m.files[:i], m.files[i+1:]...)
			return
		}
	}
}

// checkAll compares All() with the model.
func checkAll(t vev.FailTB, where string, w *WAL, m *model, trace []string) {
	got, err := w.All()
	if err != nil {
		vev.Fail(t, c11, "C11/read/error", "%s: All() failed: %v; trace=%v", where, err, trace)
	}
	want := map[uint64]HEntry{}
	fileOf := map[uint64]*mfile{}
	posOf := map[uint64]int{}
	for _, f := range m.files {
		for i, e := range f.entries {
			want[e.ID] = e
			fileOf[e.ID] = f
			posOf[e.ID] = i
		}
	}
	seen := map[uint64]bool{}
	lastPos := map[*mfile]int{}
	for _, e := range got {
		w, ok := want[e.ID]
		if !ok {
			vev.Fail(t, c11, "C11/read/phantom-entry", "%s: All() returned entry id=%d epoch=%d (%d bytes) that was never appended or was purged/torn; trace=%v", where, e.ID, e.Epoch, len(e.Payload), trace)
		}
		if seen[e.ID] {
			vev.Fail(t, c11, "C11/read/duplicate-entry", "%s: All() returned entry id=%d twice; trace=%v", where, e.ID, trace)
		}
		seen[e.ID] = true
		if e.Epoch != w.Epoch || !bytes.Equal(e.Payload, w.Payload) {
			vev.Fail(t, c11, "C11/read/entry-corrupted", "%s: entry id=%d differs from what was appended; trace=%v", where, e.ID, trace)
		}
		f := fileOf[e.ID]
		if lp, ok := lastPos[f]; ok && posOf[e.ID] < lp {
			vev.Fail(t, c11, "C11/read/order-within-file", "%s: entries of file %s are not in append order; trace=%v", where, f.name, trace)
		}
		lastPos[f] = posOf[e.ID]
	}
	for id, e := range want {
		if !seen[id] {
			vev.Fail(t, c11, "C11/read/acknowledged-entry-lost", "%s: acknowledged entry id=%d epoch=%d (%d bytes, file %s) is not returned by All(); trace=%v", where, id, e.Epoch, len(e.Payload), fileOf[id].name, trace)
		}
	}
}

func TestC11Histories(t *testing.T) {
	root := os.Getenv("VERIF_TMP")
	if root == "" {
		root = os.TempDir()
	}
	rapid.Check(t, func(t *rapid.T) {
		dir, err := os.MkdirTemp(root, "verif-c11-")
		if err != nil {
			t.Fatalf("HARNESS: %v", err)
		}
		defer os.RemoveAll(dir)
		dir = filepath.Join(dir, "wal")
		w, err := writeaheadlog.Open[HEntry](dir)
		if err != nil {
			vev.Fail(t, c11, "C11/open/failed", "Open on a fresh directory: %v", err)
		}
		m := &model{}
		var trace []string
		nextID := uint64(1)
		rotations, purges, restarts, tornInside, reusedOld, appendAfterTorn, rejected := 0, 0, 0, 0, 0, 0, 0
		tornTailPresent := false
		steps := rapid.IntRange(2, vev.IntEnv("VERIF_C11_STEPS", 25)).Draw(t, "steps")
		syncModelAfterAppend := func(where string) {
			// harness self-check: the model's idea of the files equals the directory listing
			if got, want := listWal(dir), m.names(); fmt.Sprint(got) != fmt.Sprint(want) {
				t.Fatalf("HARNESS: %s: directory has %v, model %v", where, got, want)
			}
		}
		doAppend := func(e HEntry) {
			// the model learns from the directory which file received the entry (a new file, or
			// the one that grew); it does not mirror the rotation rule
			before := walSizes(dir)
			if err := w.Append(e); err != nil {
				vev.Fail(t, c11, "C11/append/failed", "Append(id=%d, %d bytes) failed: %v; trace=%v", e.ID, len(e.Payload), err, trace)
			}
			after := walSizes(dir)
			var grown []string
			for name, sz := range after {
				if old, ok := before[name]; !ok || sz > old {
					grown = append(grown, name)
				}
			}
			for name := range before {
				if _, ok := after[name]; !ok {
					t.Fatalf("HARNESS: a log file disappeared during append: %v -> %v", before, after)
				}
			}
			if len(grown) != 1 {
				t.Fatalf("HARNESS: cannot tell which file received the entry: %v -> %v", before, after)
			}
			var target *mfile
			for _, f := range m.files {
				if f.name == grown[0] {
					target = f
				}
			}
			if target == nil {
				target = &mfile{name: grown[0]}
				m.files = append(m.files, target)
			}
			if target != m.active {
				if m.active != nil {
					m.active.closed = true
					rotations++
				}
				if target.closed {
					reusedOld++ // the code appended to a file of an earlier run
				}
				target.closed = false
				m.active = target
			}
			m.active.entries = append(m.active.entries, e)
			m.active.size += int64(len(encode(e)))
			if tornTailPresent {
				appendAfterTorn++
			}
		}
		reopen := func(how string) {
			var err error
			w, err = writeaheadlog.Open[HEntry](dir)
			if err != nil {
				vev.Fail(t, c11, "C11/open/failed", "Open after %s: %v; trace=%v", how, err, trace)
			}
			restarts++
			if m.active != nil {
				m.active.closed = true
				m.active = nil
			}
			for _, f := range m.files {
				f.closed = true
			}
			checkAll(t, "after "+how, w, m, trace)
		}
		for s := 0; s < steps; s++ {
			action := rapid.SampledFrom([]string{"append", "append", "append", "append-big", "append-burst", "append-burst", "append-rejected", "rotate", "close", "purge", "purge", "reopen", "crash", "torn", "all"}).Draw(t, "action")
			switch action {
			case "append-burst":
				// enough large entries in a row that the 1 MiB threshold is crossed inside one
				// file and a later append rotates on size (not on reopen/close)
				k := rapid.IntRange(4, 6).Draw(t, "burst")
				for b := 0; b < k; b++ {
					size := rapid.IntRange(250_000, 400_000).Draw(t, "burstsize")
					e := HEntry{ID: nextID, Epoch: uint64(rapid.IntRange(0, 12).Draw(t, "epoch")), Payload: vgen.DetBytes(size, "p", nextID)}
					nextID++
					doAppend(e)
				}
				trace = append(trace, fmt.Sprintf("burst(%d)", k))
			case "append-rejected":
				// an entry whose own encoder fails part-way: the append is refused and must
				// leave no trace in what later reads return (the log may open a new file first)
				size := rapid.IntRange(0, 300).Draw(t, "size")
				e := HEntry{ID: nextID, Epoch: uint64(rapid.IntRange(0, 12).Draw(t, "epoch")), Payload: vgen.DetBytes(size, "p", nextID)}
				nextID++
				e.failAfter = 1 + rapid.IntRange(0, len(encode(e))).Draw(t, "failafter")
				before := walSizes(dir)
				err := w.Append(e)
				trace = append(trace, fmt.Sprintf("append-rejected(id=%d,after %dB): %v", e.ID, e.failAfter-1, err))
				for name := range walSizes(dir) {
					if _, ok := before[name]; !ok {
						if m.active != nil {
							m.active.closed = true
							rotations++
						}
						m.active = &mfile{name: name}
						m.files = append(m.files, m.active)
					}
				}
				rejected++
				checkAll(t, "after a rejected append", w, m, trace)
			case "append", "append-big":
				size := rapid.IntRange(0, 300).Draw(t, "size")
				if action == "append-big" {
					size = rapid.IntRange(100_000, 400_000).Draw(t, "bigsize")
				}
				e := HEntry{ID: nextID, Epoch: uint64(rapid.IntRange(0, 12).Draw(t, "epoch")), Payload: vgen.DetBytes(size, "p", nextID)}
				nextID++
				doAppend(e)
				trace = append(trace, fmt.Sprintf("append(id=%d,epoch=%d,%dB)", e.ID, e.Epoch, size))
			case "rotate", "close":
				var err error
				if action == "rotate" {
					err = w.Rotate()
				} else {
					err = w.Close()
				}
				if err != nil {
					vev.Fail(t, c11, "C11/close/failed", "%s failed: %v", action, err)
				}
				if m.active != nil {
					m.active.closed = true
					m.active = nil
				}
				trace = append(trace, action)
			case "purge":
				keep := uint64(rapid.IntRange(0, 13).Draw(t, "keep"))
				if err := w.Purge(keep); err != nil {
					vev.Fail(t, c11, "C11/purge/failed", "Purge(%d) failed: %v", keep, err)
				}
				purges++
				onDisk := map[string]bool{}
				for _, n := range listWal(dir) {
					onDisk[n] = true
				}
				for _, f := range append([]*mfile(nil), m.files...) {
					allBelow := true
					anyKept := false
					for _, e := range f.entries {
						if e.Epoch >= keep {
							allBelow = false
							anyKept = true
						}
					}
					if !onDisk[f.name] {
						if anyKept {
							vev.Fail(t, c11, "C11/purge/removed-live-entry", "Purge(%d) removed file %s which holds an entry at or above that epoch; trace=%v", keep, f.name, trace)
						}
						if f == m.active {
							vev.Fail(t, c11, "C11/purge/removed-active-file", "Purge(%d) removed the active file; trace=%v", keep, trace)
						}
						m.remove(f)
					} else if f.closed && f != m.active && allBelow && len(f.entries) > 0 {
						// (a closed file without any entry - left by a refused append or a crash right
						// after rotation - holds nothing the clause speaks about: no demand either way)
						vev.Fail(t, c11, "C11/purge/stale-file-kept", "Purge(%d) kept closed file %s although all its %d entries are below that epoch; trace=%v", keep, f.name, len(f.entries), trace)
					}
				}
				trace = append(trace, fmt.Sprintf("purge(%d)", keep))
				checkAll(t, fmt.Sprintf("after purge(%d)", keep), w, m, trace)
			case "reopen":
				if err := w.Close(); err != nil {
					vev.Fail(t, c11, "C11/close/failed", "Close failed: %v", err)
				}
				trace = append(trace, "reopen")
				reopen("graceful reopen")
			case "crash":
				trace = append(trace, "crash")
				reopen("crash") // the old handle is simply abandoned
			case "torn":
				// the process dies while appending: k bytes of the record reach the file
				size := rapid.IntRange(0, 4000).Draw(t, "tornsize")
				if rapid.IntRange(0, 5).Draw(t, "tornbig") == 0 {
					size = rapid.IntRange(100_000, 300_000).Draw(t, "tornbigsize")
				}
				e := HEntry{ID: nextID, Epoch: uint64(rapid.IntRange(0, 12).Draw(t, "epoch")), Payload: vgen.DetBytes(size, "p", nextID)}
				nextID++
				rec := encode(e)
				// an append first makes sure an active file exists (rotation rule); emulate with a tiny real append of a marker entry
				marker := HEntry{ID: nextID, Epoch: e.Epoch, Payload: nil}
				nextID++
				doAppend(marker)
				activePath := filepath.Join(dir, m.active.name)
				snapshot, _ := os.ReadFile(activePath)
				var ks []int
				if len(rec) <= 4096 && vev.Thorough() {
					for k := 0; k <= len(rec); k++ {
						ks = append(ks, k)
					}
				} else {
					ks = []int{0, 1, len(rec) - 1, len(rec)}
					for i := 0; i < vev.IntEnv("VERIF_C11_TORN", 12); i++ {
						ks = append(ks, rapid.IntRange(0, len(rec)).Draw(t, "k"))
					}
				}
				savedModel := append([]HEntry(nil), m.active.entries...)
				for _, k := range ks {
					if err := os.WriteFile(activePath, append(append([]byte(nil), snapshot...), rec[:k]...), 0o666); err != nil {
						t.Fatalf("HARNESS: %v", err)
					}
					m.active.entries = append([]HEntry(nil), savedModel...)
					if k == len(rec) {
						m.active.entries = append(m.active.entries, e)
					}
					w2, err := writeaheadlog.Open[HEntry](dir)
					if err != nil {
						vev.Fail(t, c11, "C11/open/failed-on-torn-tail", "Open with a record torn at byte %d of %d failed: %v", k, len(rec), err)
					}
					checkAll(t, fmt.Sprintf("after crash with record torn at byte %d of %d", k, len(rec)), w2, m, trace)
					inside := k > 0 && k < len(rec)
					if inside {
						tornInside++
					}
					vev.Case(c11, vev.Digest("torn", len(rec), k, len(snapshot)), inside, "torn-offset", fmt.Sprintf("torn-inside:%v", inside))
				}
				// continue the history from a generated variant: usually a tail torn strictly inside
				// the record (later appends, rotations, purges and restarts then happen with a torn
				// tail on disk), sometimes the complete or the absent record
				kf := len(rec)
				switch rapid.IntRange(0, 5).Draw(t, "tornfinal") {
				case 0:
				case 1:
					kf = 0
				default:
					if len(rec) > 2 {
						kf = rapid.IntRange(1, len(rec)-1).Draw(t, "tornfinalk")
					}
				}
				if err := os.WriteFile(activePath, append(append([]byte(nil), snapshot...), rec[:kf]...), 0o666); err != nil {
					t.Fatalf("HARNESS: %v", err)
				}
				m.active.entries = append([]HEntry(nil), savedModel...)
				if kf == len(rec) {
					m.active.entries = append(m.active.entries, e)
				}
				if kf > 0 && kf < len(rec) {
					tornTailPresent = true
				}
				trace = append(trace, fmt.Sprintf("torn(id=%d,%dB,offsets=%d,left=%d)", e.ID, len(rec), len(ks), kf))
				reopen("torn crash")
			case "all":
				checkAll(t, "All()", w, m, trace)
			}
			syncModelAfterAppend(fmt.Sprintf("step %d %s", s, action))
		}
		_ = w.Close()
		reopen("final reopen")
		nt := (rotations > 0 && purges > 0 && restarts >= 3) || tornInside > 0
		vev.Case(c11, vev.Digest(fmt.Sprint(trace)), nt, "history", fmt.Sprintf("rotation:%v", rotations > 0), fmt.Sprintf("purge:%v", purges > 0), fmt.Sprintf("restarts>=2:%v", restarts >= 3), fmt.Sprintf("torn-inside:%v", tornInside > 0),
			fmt.Sprintf("append-after-torn-tail:%v", appendAfterTorn > 0), fmt.Sprintf("appended-to-file-of-earlier-run:%v", reusedOld > 0), fmt.Sprintf("rejected-append:%v", rejected > 0))
		vev.Sample(c11, func() any { return map[string]any{"kind": "history", "trace": trace, "files_at_end": m.names()} })
	})
}
