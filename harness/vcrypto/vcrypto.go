// Package vcrypto is the harness-owned deterministic signature scheme (trusted
// base). A signature verifies only for the exact (public key, payload); an
// aggregate only for the exact (signer indices, keys, payload).
//
// Unforgeability is a convention of the harness: adversary code only ever
// calls Sign with keys it owns and otherwise re-uses signature bytes it has
// observed. Nothing in the scheme depends on go-f3 code.
package vcrypto

import (
	"bytes"
	"context"
	"crypto/sha256"
	"encoding/binary"
	"errors"
	"fmt"

	"github.com/filecoin-project/go-f3/gpbft"
)

type Scheme struct{}

var (
	_ gpbft.Signer   = Scheme{}
	_ gpbft.Verifier = Scheme{}
)

// PubKey returns the deterministic 48-byte public key of participant n.
func PubKey(n uint64) gpbft.PubKey {
	k := make([]byte, 48)
	copy(k, "vpk:")
	binary.BigEndian.PutUint64(k[4:], n)
	h := sha256.Sum256(k[:12])
	copy(k[12:], h[:])
	return k
}

func RawSign(pk gpbft.PubKey, msg []byte) []byte {
	h := sha256.New()
	h.Write([]byte("vsig"))
	_ = binary.Write(h, binary.BigEndian, uint32(len(pk)))
	h.Write(pk)
	h.Write(msg)
	s := h.Sum(nil)
	// 96 bytes like BLS signatures on the wire
	out := make([]byte, 96)
	copy(out, s)
	s2 := sha256.Sum256(s)
	copy(out[32:], s2[:])
	s3 := sha256.Sum256(s2[:])
	copy(out[64:], s3[:])
	return out
}

func (Scheme) Sign(_ context.Context, pk gpbft.PubKey, msg []byte) ([]byte, error) {
	if len(pk) == 0 {
		return nil, errors.New("empty key")
	}
	return RawSign(pk, msg), nil
}

func (Scheme) Verify(pk gpbft.PubKey, msg, sig []byte) error {
	if len(pk) == 0 {
		return errors.New("empty key")
	}
	if !bytes.Equal(RawSign(pk, msg), sig) {
		return errors.New("vcrypto: bad signature")
	}
	return nil
}

func (Scheme) Aggregate(keys []gpbft.PubKey) (gpbft.Aggregate, error) {
	cp := make([]gpbft.PubKey, len(keys))
	copy(cp, keys)
	return &Agg{Keys: cp}, nil
}

type Agg struct{ Keys []gpbft.PubKey }

func aggregate(keys []gpbft.PubKey, mask []int, sigs [][]byte) ([]byte, error) {
	if len(mask) != len(sigs) {
		return nil, errors.New("vcrypto: mask/sigs length mismatch")
	}
	h := sha256.New()
	h.Write([]byte("vagg"))
	for i, bit := range mask {
		if bit < 0 || bit >= len(keys) {
			return nil, fmt.Errorf("vcrypto: signer %d out of range", bit)
		}
		_ = binary.Write(h, binary.BigEndian, int64(bit))
		h.Write(keys[bit])
		h.Write(sigs[i])
	}
	s := h.Sum(nil)
	out := make([]byte, 96)
	copy(out, s)
	s2 := sha256.Sum256(s)
	copy(out[32:], s2[:])
	s3 := sha256.Sum256(s2[:])
	copy(out[64:], s3[:])
	return out, nil
}

func (a *Agg) Aggregate(mask []int, sigs [][]byte) ([]byte, error) {
	return aggregate(a.Keys, mask, sigs)
}

func (a *Agg) VerifyAggregate(mask []int, payload, aggSig []byte) error {
	sigs := make([][]byte, len(mask))
	for i, bit := range mask {
		if bit < 0 || bit >= len(a.Keys) {
			return fmt.Errorf("vcrypto: signer %d out of range", bit)
		}
		sigs[i] = RawSign(a.Keys[bit], payload)
	}
	want, err := aggregate(a.Keys, mask, sigs)
	if err != nil {
		return err
	}
	if !bytes.Equal(want, aggSig) {
		return errors.New("vcrypto: bad aggregate")
	}
	return nil
}

// AggregateFor builds the aggregate of the given signers (indices into keys,
// ascending) over payload, signing on behalf of each — harness-side helper for
// constructing honest certificates and justifications.
func AggregateFor(keys []gpbft.PubKey, mask []int, payload []byte) []byte {
	sigs := make([][]byte, len(mask))
	for i, bit := range mask {
		if bit < 0 || bit >= len(keys) {
			// no such member: nobody can produce this aggregate; return bytes that
			// verify for nothing
			h := sha256.Sum256(append([]byte("vagg-impossible"), payload...))
			out := make([]byte, 96)
			copy(out, h[:])
			return out
		}
		sigs[i] = RawSign(keys[bit], payload)
	}
	out, err := aggregate(keys, mask, sigs)
	if err != nil {
		panic(err)
	}
	return out
}
