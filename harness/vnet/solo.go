package vnet

import (
	"fmt"
	"math/big"
	"sort"
	"time"

	"github.com/filecoin-project/go-bitfield"
	"github.com/filecoin-project/go-f3/gpbft"
	"github.com/filecoin-project/go-f3/verifharness/vcrypto"
	"github.com/filecoin-project/go-f3/verifharness/vref"
	"pgregory.net/rapid"
)

// Solo is the "one participant under a puppet committee" engine: one real
// gpbft.Participant (with the usual monitors), every other committee member a
// puppet of the harness. Puppets never equivocate: a ledger records the one vote
// each of them casts per (round, step), and every justification is assembled only
// from ledger votes (recruiting puppets that have not voted in that slot yet, whose
// vote is thereby cast) plus the participant's own broadcast votes. What the
// participant receives is therefore always a subset of the messages of an
// execution in which nobody double-votes - so two different strong quorums in one
// slot cannot occur - while the harness is free to pick which votes exist and
// which of them the participant gets to see, in which order, and when its timers
// fire. This reaches protocol states (sways, skips, late quorums, deep rounds)
// directly that whole-network scheduling reaches only by luck.
type Solo struct {
	W      *World
	P      *Node
	Inst   uint64
	Values []*gpbft.ECChain // non-bottom values in play
	ledger map[soloSlot]map[gpbft.ActorID]gpbft.ECChainKey
	chains map[gpbft.ECChainKey]*gpbft.ECChain
	sent   []*gpbft.GMessage // every puppet message built so far (for re-delivery)
	Stats  SoloStats
}

type SoloStats struct {
	Votes, Bursts, Refused, Redelivered, Alarms, SelfDelivered int
	MaxRound                                                  uint64
	Phases                                                    map[gpbft.Phase]bool
}

type soloSlot struct {
	Round uint64
	Phase gpbft.Phase
}

// NewSolo draws a committee and the participant's input.
func NewSolo(t *rapid.T) (*Solo, error) {
	n := rapid.IntRange(3, 7).Draw(t, "members")
	var table gpbft.PowerEntries
	kind := rapid.SampledFrom([]string{"equal", "equal", "balanced", "skewed", "thirds"}).Draw(t, "solotable")
	for i := 0; i < n; i++ {
		id := gpbft.ActorID(i + 1)
		var p int64
		switch kind {
		case "equal":
			p = 10
		case "balanced":
			p = int64(1000 + rapid.IntRange(0, 400).Draw(t, "pow"))
		case "skewed":
			p = int64(1) << uint(rapid.IntRange(0, 6).Draw(t, "powbits"))
		default: // exact thirds where possible
			p = 10
		}
		table = append(table, gpbft.PowerEntry{ID: id, Power: gpbft.StoragePower{Int: big.NewInt(p)}, PubKey: vcrypto.PubKey(uint64(id))})
	}
	if kind == "thirds" {
		n = 3 * (1 + rapid.IntRange(0, 1).Draw(t, "thirdsfactor"))
		table = nil
		for i := 0; i < n; i++ {
			id := gpbft.ActorID(i + 1)
			table = append(table, gpbft.PowerEntry{ID: id, Power: gpbft.StoragePower{Int: big.NewInt(10)}, PubKey: vcrypto.PubKey(uint64(id))})
		}
	}
	table = vref.Canonical(table)
	me := table[rapid.IntRange(0, len(table)-1).Draw(t, "self")].ID
	cfg := &Config{NN: "vnet", First: uint64(rapid.IntRange(0, 9).Draw(t, "first")), TableKind: "solo-" + kind,
		Root: &gpbft.TipSet{Epoch: int64(rapid.IntRange(0, 50).Draw(t, "rootepoch")), Key: []byte("root-tipset"), PowerTable: gpbft.MakeCid([]byte("root-pt"))}}
	cfg.Honest = []gpbft.ActorID{me}
	for _, e := range table {
		if e.ID != me {
			cfg.Byz = append(cfg.Byz, e.ID)
		}
	}
	ic := InstanceCfg{Table: table, Beacon: []byte("solo-beacon"), Paths: map[gpbft.ActorID][]int{}}
	L := rapid.IntRange(0, 4).Draw(t, "inputlen")
	ic.Paths[me] = make([]int, L)
	ic.Supp = gpbft.SupplementalData{PowerTable: vref.TableCID(table)}
	cfg.Instances = []InstanceCfg{ic}
	cfg.Delta = time.Second
	cfg.Options = []gpbft.Option{
		gpbft.WithDelta(cfg.Delta),
		gpbft.WithDeltaBackOffExponent(rapid.SampledFrom([]float64{1.0, 1.3}).Draw(t, "backoff")),
		gpbft.WithMaxLookaheadRounds(uint64(rapid.IntRange(0, 3).Draw(t, "lookahead"))),
		gpbft.WithRebroadcastBackoff(1.3, 0, time.Duration(rapid.SampledFrom([]int{500, 3000, 20000}).Draw(t, "reb_ms"))*time.Millisecond, 60*time.Second),
		gpbft.WithRebroadcastImmediatelyAfterRound(uint64(rapid.IntRange(0, 3).Draw(t, "rebafter"))),
		gpbft.WithCommitteeLookback(5),
	}
	w, err := NewWorld(cfg, nil)
	if err != nil {
		return nil, err
	}
	s := &Solo{W: w, P: w.Nodes[0], Inst: cfg.First, ledger: map[soloSlot]map[gpbft.ActorID]gpbft.ECChainKey{}, chains: map[gpbft.ECChainKey]*gpbft.ECChain{}}
	s.Stats.Phases = map[gpbft.Phase]bool{}
	// values: every prefix of the input, a fork at every depth, an extension, a foreign base
	add := func(c *gpbft.ECChain) {
		if _, ok := s.chains[c.Key()]; !ok {
			s.chains[c.Key()] = c
			s.Values = append(s.Values, c)
		}
	}
	for l := 0; l <= L; l++ {
		add(PathChain(cfg.Root, make([]int, l)))
		fork := append(make([]int, l), 1)
		add(PathChain(cfg.Root, fork))
	}
	add(PathChain(cfg.Root, make([]int, L+1)))
	add(PathChain(cfg.Root, append(make([]int, L), 1, 0)))
	return s, nil
}

func (s *Solo) scaled() ([]int64, int64) { return vref.Scaled(s.W.Cfg.Instances[0].Table) }

// cast records puppet id's vote in (round, phase); false if it already voted otherwise.
func (s *Solo) cast(id gpbft.ActorID, round uint64, phase gpbft.Phase, value *gpbft.ECChain) bool {
	sl := soloSlot{round, phase}
	if s.ledger[sl] == nil {
		s.ledger[sl] = map[gpbft.ActorID]gpbft.ECChainKey{}
	}
	k := value.Key()
	if prev, ok := s.ledger[sl][id]; ok {
		return prev == k
	}
	s.ledger[sl][id] = k
	return true
}

// justify assembles a strong-quorum justification for (round, phase, value) from ledger
// votes and the participant's own broadcast vote, recruiting puppets that have not voted in
// that slot; nil if the votes already cast make it impossible.
func (s *Solo) justify(round uint64, phase gpbft.Phase, value *gpbft.ECChain) *gpbft.Justification {
	cfg := s.W.Cfg
	ic := &cfg.Instances[0]
	scaled, total := s.scaled()
	if value == nil {
		value = &gpbft.ECChain{}
	}
	k := value.Key()
	sl := soloSlot{round, phase}
	payload := gpbft.Payload{Instance: s.Inst, Round: round, Phase: phase, SupplementalData: ic.Supp, Value: value}
	bytesToSign := payload.MarshalForSigning(cfg.NN)
	have := map[int][]byte{}
	var sum int64
	// the participant's own vote, if it broadcast exactly this payload
	if sig, ok := s.W.Evidence.sigs[evKey{s.Inst, round, phase, k}][s.P.ID]; ok {
		if i := cfg.IndexOf(s.Inst, s.P.ID); i >= 0 && scaled[i] > 0 {
			have[i] = sig
			sum += scaled[i]
		}
	}
	var free []int
	for _, id := range cfg.Byz {
		i := cfg.IndexOf(s.Inst, id)
		if i < 0 || scaled[i] == 0 {
			continue
		}
		if v, ok := s.ledger[sl][id]; ok {
			if v == k {
				have[i] = vcrypto.RawSign(ic.Table[i].PubKey, bytesToSign)
				sum += scaled[i]
			}
		} else {
			free = append(free, i)
		}
	}
	sort.Ints(free)
	for _, i := range free {
		if vref.StrongQuorum(sum, total) {
			break
		}
		s.cast(ic.Table[i].ID, round, phase, value)
		have[i] = vcrypto.RawSign(ic.Table[i].PubKey, bytesToSign)
		sum += scaled[i]
	}
	if !vref.StrongQuorum(sum, total) {
		return nil
	}
	idx := make([]int, 0, len(have))
	for i := range have {
		idx = append(idx, i)
	}
	sort.Ints(idx)
	sigs := make([][]byte, len(idx))
	set := make([]uint64, len(idx))
	for n, i := range idx {
		sigs[n] = have[i]
		set[n] = uint64(i)
	}
	agg := &vcrypto.Agg{Keys: ic.Table.PublicKeys()}
	a, err := agg.Aggregate(idx, sigs)
	if err != nil {
		return nil
	}
	return &gpbft.Justification{Vote: payload, Signers: bitfield.NewFromSet(set), Signature: a}
}

// Vote lets puppet id cast (round, phase, value) and delivers the message to the
// participant; false if the puppet already voted otherwise in that slot or no
// justification can exist.
func (s *Solo) Vote(t *rapid.T, id gpbft.ActorID, round uint64, phase gpbft.Phase, value *gpbft.ECChain) bool {
	bottom := value == nil || value.IsZero()
	var j *gpbft.Justification
	switch phase {
	case gpbft.QUALITY_PHASE:
		if bottom || round != 0 {
			return false
		}
	case gpbft.PREPARE_PHASE, gpbft.CONVERGE_PHASE:
		if bottom || (phase == gpbft.CONVERGE_PHASE && round == 0) {
			return false
		}
		if round > 0 {
			if rapid.Bool().Draw(t, "justbybottom") {
				j = s.justify(round-1, gpbft.COMMIT_PHASE, nil)
			}
			if j == nil {
				j = s.justify(round-1, gpbft.PREPARE_PHASE, value)
			}
			if j == nil {
				j = s.justify(round-1, gpbft.COMMIT_PHASE, nil)
			}
			if j == nil {
				return false
			}
		}
	case gpbft.COMMIT_PHASE:
		if !bottom {
			if j = s.justify(round, gpbft.PREPARE_PHASE, value); j == nil {
				return false
			}
		}
	case gpbft.DECIDE_PHASE:
		if bottom {
			return false
		}
		cr := round
		round = 0
		if j = s.justify(cr, gpbft.COMMIT_PHASE, value); j == nil {
			return false
		}
	default:
		return false
	}
	if !s.cast(id, round, phase, value) {
		s.Stats.Refused++
		return false
	}
	m := s.W.ByzMessage(id, s.Inst, round, phase, value, j)
	if m == nil {
		return false
	}
	if rapid.IntRange(0, 11).Draw(t, "suppvariant") == 0 {
		// first a copy signed over other supplemental commitments: it must count nowhere
		s.deliver(s.W.suppVariant(m))
		s.W.Stats.SuppVariants++
	}
	s.sent = append(s.sent, m)
	s.Stats.Votes++
	s.deliver(m)
	return true
}

func (s *Solo) deliver(m *gpbft.GMessage) {
	s.W.ByzEverSent = true
	s.W.deliver(&Pending{Msg: m, To: 0, FromByz: true, SentAt: s.W.Now})
	s.note()
}

func (s *Solo) note() {
	pr := s.P.P.Progress()
	if pr.ID == s.Inst {
		if pr.Round > s.Stats.MaxRound {
			s.Stats.MaxRound = pr.Round
		}
		s.Stats.Phases[pr.Phase] = true
	}
}

// Decided reports whether the participant has decided the instance.
func (s *Solo) Decided() bool { return s.P.Decided[s.Inst] != nil }

// Step performs one generated action.
func (s *Solo) Step(t *rapid.T) string {
	cfg := s.W.Cfg
	pr := s.P.P.Progress()
	cur := pr.Round
	if pr.ID != s.Inst {
		cur = 0
	}
	pickRound := func() uint64 {
		d := rapid.SampledFrom([]int{-1, 0, 0, 0, 0, 1, 1, 2, 3}).Draw(t, "dround")
		if int64(cur)+int64(d) < 0 {
			return 0
		}
		return uint64(int64(cur) + int64(d))
	}
	pickValue := func(allowBottom bool) *gpbft.ECChain {
		// prefer what the participant itself currently votes for, so that quorums form
		if len(s.P.Sent) > 0 && rapid.IntRange(0, 2).Draw(t, "followself") == 0 {
			v := s.P.Sent[len(s.P.Sent)-1].Msg.Vote.Value
			if !v.IsZero() {
				return v
			}
		}
		if allowBottom && rapid.IntRange(0, 3).Draw(t, "bottom") == 0 {
			return nil
		}
		return s.Values[rapid.IntRange(0, len(s.Values)-1).Draw(t, "value")]
	}
	phases := []gpbft.Phase{gpbft.QUALITY_PHASE, gpbft.QUALITY_PHASE, gpbft.PREPARE_PHASE, gpbft.PREPARE_PHASE, gpbft.PREPARE_PHASE, gpbft.PREPARE_PHASE, gpbft.COMMIT_PHASE, gpbft.COMMIT_PHASE, gpbft.COMMIT_PHASE, gpbft.COMMIT_PHASE,
		gpbft.CONVERGE_PHASE, gpbft.CONVERGE_PHASE, gpbft.CONVERGE_PHASE, gpbft.CONVERGE_PHASE, gpbft.DECIDE_PHASE}
	action := rapid.SampledFrom([]string{"vote", "vote", "vote", "burst", "burst", "alarm", "alarm", "self", "self", "redeliver", "advance", "advance", "lure"}).Draw(t, "soloaction")
	switch action {
	case "advance":
		// drive the participant out of its current round without a decision: no PREPARE quorum
		// (votes split over two values), a strong quorum of COMMIT for bottom, timers on time
		if pr.ID != s.Inst || s.Decided() {
			return "advance(n/a)"
		}
		start := cur
		for guard := 0; guard < 14 && !s.Decided(); guard++ {
			now := s.P.P.Progress()
			if now.Round > start {
				break
			}
			switch now.Phase {
			case gpbft.PREPARE_PHASE:
				for n, id := range cfg.Byz {
					s.Vote(t, id, start, gpbft.PREPARE_PHASE, s.Values[n%2])
				}
			case gpbft.COMMIT_PHASE:
				for _, id := range cfg.Byz {
					s.Vote(t, id, start, gpbft.COMMIT_PHASE, nil)
					if s.P.P.Progress().Round > start {
						break
					}
				}
			}
			if s.P.P.Progress().Round > start {
				break
			}
			if s.W.alarmEligible(s.P) {
				s.W.FireAlarm(0)
				s.Stats.Alarms++
			}
			s.note()
		}
		s.note()
		return fmt.Sprintf("advance(r%d->r%d)", start, s.P.P.Progress().Round)
	case "lure":
		// what makes a lagging participant skip ahead: a weak quorum of PREPARE for a future
		// round and a CONVERGE of that round (justified by whatever the ledger still allows)
		r := cur + uint64(rapid.IntRange(1, 3).Draw(t, "lureahead"))
		v := pickValue(false)
		scaled, total := s.scaled()
		var sum int64
		for _, id := range cfg.Byz {
			if 3*sum > total {
				break
			}
			if s.Vote(t, id, r, gpbft.PREPARE_PHASE, v) {
				sum += scaled[cfg.IndexOf(s.Inst, id)]
			}
		}
		cv := v
		if rapid.Bool().Draw(t, "lureothervalue") {
			cv = pickValue(false)
		}
		ok := s.Vote(t, cfg.Byz[rapid.IntRange(0, len(cfg.Byz)-1).Draw(t, "lureconv")], r, gpbft.CONVERGE_PHASE, cv)
		return fmt.Sprintf("lure(r%d)=%v", r, ok)
	case "vote":
		id := cfg.Byz[rapid.IntRange(0, len(cfg.Byz)-1).Draw(t, "puppet")]
		ph := rapid.SampledFrom(phases).Draw(t, "phase")
		r := pickRound()
		if ph == gpbft.QUALITY_PHASE {
			r = 0
		}
		v := pickValue(ph == gpbft.COMMIT_PHASE)
		ok := s.Vote(t, id, r, ph, v)
		return fmt.Sprintf("vote(%d,r%d,%s)=%v", id, r, ph, ok)
	case "burst":
		// as many puppets as it takes for a strong quorum (with or without the participant) vote alike
		ph := rapid.SampledFrom(phases).Draw(t, "phase")
		r := pickRound()
		if ph == gpbft.QUALITY_PHASE {
			r = 0
		}
		v := pickValue(ph == gpbft.COMMIT_PHASE)
		scaled, total := s.scaled()
		var sum int64
		n := 0
		order := append([]gpbft.ActorID(nil), cfg.Byz...)
		if off := rapid.IntRange(0, len(order)-1).Draw(t, "burststart"); off > 0 {
			order = append(order[off:], order[:off]...)
		}
		short := rapid.IntRange(0, 3).Draw(t, "oneshort") == 0 // stop one voter before the quorum
		for _, id := range order {
			i := cfg.IndexOf(s.Inst, id)
			if vref.StrongQuorum(sum+scaled[i], total) && short {
				break
			}
			if s.Vote(t, id, r, ph, v) {
				sum += scaled[i]
				n++
			}
			if vref.StrongQuorum(sum, total) || s.Decided() {
				break
			}
		}
		s.Stats.Bursts++
		return fmt.Sprintf("burst(r%d,%s,%d votes)", r, ph, n)
	case "alarm":
		if s.W.alarmEligible(s.P) {
			s.W.FireAlarm(0)
			s.Stats.Alarms++
			s.note()
			return "alarm"
		}
		return "alarm(none)"
	case "self":
		// the participant's own broadcasts come back to it (in order, or one picked)
		var mine []int
		for k, p := range s.W.Pool {
			if p.To == 0 {
				mine = append(mine, k)
			}
		}
		if len(mine) == 0 {
			return "self(none)"
		}
		k := mine[0]
		if rapid.Bool().Draw(t, "selfany") {
			k = mine[rapid.IntRange(0, len(mine)-1).Draw(t, "selfpick")]
		}
		s.W.Deliver(k)
		s.Stats.SelfDelivered++
		s.note()
		return "self"
	default:
		if len(s.sent) == 0 {
			return "redeliver(none)"
		}
		m := s.sent[rapid.IntRange(0, len(s.sent)-1).Draw(t, "redeliver")]
		s.Stats.Redelivered++
		s.deliver(m)
		return "redeliver"
	}
}
