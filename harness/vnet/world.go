// Package vnet is the consensus world (engine E1): real gpbft.Participants
// behind harness hosts, one virtual clock, a message pool whose every delivery,
// drop, duplicate and timer firing is a generated choice, and an adaptive
// Byzantine coalition.
package vnet

import (
	"context"
	"crypto/sha256"
	"encoding/binary"
	"errors"
	"fmt"
	"sort"
	"time"

	"github.com/filecoin-project/go-f3/gpbft"
	"github.com/filecoin-project/go-f3/pmsg"
	"github.com/filecoin-project/go-f3/verifharness/vcrypto"
	"github.com/filecoin-project/go-f3/verifharness/vref"
	"github.com/ipfs/go-cid"
)

var Epoch0 = time.Unix(1_700_000_000, 0)

// InstanceCfg is the static configuration of one consensus instance.
type InstanceCfg struct {
	Table  gpbft.PowerEntries // canonical
	Beacon []byte
	Supp   gpbft.SupplementalData
	// Paths[nodeIndex] = branch choices below the instance base for that node's input
	Paths map[gpbft.ActorID][]int
}

type Config struct {
	// TwoFaced: every Byzantine member is run as two real participants, one per
	// partition side, each supporting what that side proposes
	TwoFaced  bool
	NN        gpbft.NetworkName
	First     uint64
	Instances []InstanceCfg
	Honest    []gpbft.ActorID // live honest participants
	// Divergent (a subset of Honest): honest participants whose view of the instance's base
	// tipset differs from everybody else's in the power-table CID only (diverged derived
	// state). Everything they send carries a foreign base and everything they hear does too,
	// so they must drop it all; their power is not needed by the others (they are drawn from
	// the members that would otherwise be crash-silent).
	Divergent []gpbft.ActorID
	// DivergentSupp: the divergent participants agree on the base but derive other
	// supplemental data (commitments) for every instance than the rest of the network.
	DivergentSupp bool
	// PartialPath: every message reaches honest participants the way the production host
	// handles a message whose chain it has to fetch first: stripped to its partial form,
	// partially validated, completed with the chain, fully validated.
	PartialPath bool
	Silent      []gpbft.ActorID // crash-silent members (never run)
	Byz         []gpbft.ActorID
	Options     []gpbft.Option
	Delta       time.Duration
	// Exponent and RebMax repeat the back-off exponent and the largest rebroadcast interval
	// given in Options (for the stall detector of the closing phase; 0 = unknown)
	Exponent  float64
	RebMax    time.Duration
	Root      *gpbft.TipSet
	TableKind string
}

func (c *Config) Last() uint64 { return c.First + uint64(len(c.Instances)) - 1 }

func (c *Config) Inst(i uint64) *InstanceCfg {
	if i < c.First || i > c.Last() {
		return nil
	}
	return &c.Instances[i-c.First]
}

// Child derives the tipset reached from parent by branch b (implicit infinite tree).
func Child(parent *gpbft.TipSet, b int) *gpbft.TipSet {
	h := sha256.New()
	h.Write(parent.Key)
	var x [8]byte
	binary.BigEndian.PutUint64(x[:], uint64(b))
	h.Write(x[:])
	sum := h.Sum(nil)
	gap := int64(1)
	if sum[0]%5 == 0 { // null rounds
		gap += int64(sum[1] % 3)
	}
	klen := 8 + int(sum[2]%24)
	key := make([]byte, 0, klen)
	for len(key) < klen {
		key = append(key, sum...)
	}
	ts := &gpbft.TipSet{Epoch: parent.Epoch + gap, Key: key[:klen], PowerTable: gpbft.MakeCid(sum[:16])}
	if sum[3]%3 == 0 {
		copy(ts.Commitments[:], sum)
	}
	return ts
}

// PathChain builds base + the tipsets along path.
func PathChain(base *gpbft.TipSet, path []int) *gpbft.ECChain {
	ts := []*gpbft.TipSet{base}
	cur := base
	for _, b := range path {
		cur = Child(cur, b)
		ts = append(ts, cur)
	}
	return &gpbft.ECChain{TipSets: ts}
}

// Sent is a message emitted by an honest node.
type Sent struct {
	From    gpbft.ActorID
	Msg     *gpbft.GMessage
	At      time.Time
	Step    int
	Rebcast bool
}

// Pending is one undelivered (message, destination) pair.
type Pending struct {
	Msg       *gpbft.GMessage
	To        int // index into World.Nodes
	FromByz   bool
	SentAt    time.Time
	DeliverAt time.Time // used by the timely regime only
	Seq       int
}

type Decision struct {
	Instance uint64
	J        *gpbft.Justification
	Step     int
	Round    uint64 // round the node was in when it decided
}

// Node is one honest participant and everything observed about it.
type Node struct {
	W *World
	// Byz marks a "personality" of a Byzantine member: a real participant that the
	// coalition runs once per partition side (two-faced adversary). It is never
	// checked by monitors and its decisions do not count.
	Byz       bool
	Divergent bool
	Supps     map[uint64]gpbft.SupplementalData // supplemental data the node's host returned per instance
	Group     int
	Idx       int
	ID        gpbft.ActorID
	P         *gpbft.Participant
	Alarm     time.Time
	AlarmSet  bool
	Started   bool
	Decided   map[uint64]*Decision
	Bases     map[uint64]*gpbft.TipSet  // base the node entered each instance with
	Inputs    map[uint64]*gpbft.ECChain // what GetProposal returned
	Sent      []*Sent                   // every RequestBroadcast, in order
	byInst    map[gpbft.Instant]*gpbft.GMessage
	Errors    []string
	Mon       *Monitor
	inCall    bool
	// alarm set during the current API call (for deadlines)
	lastAlarmInCall time.Time
	alarmInCall     bool
	curCall         string
}

type World struct {
	Cfg   *Config
	Nodes []*Node
	// Personas are the two-faced Byzantine personalities (Idx continues after Nodes)
	Personas []*Node
	// Group is the partition side of every honest node (index into Nodes)
	Group   map[int]int
	ByIdx   map[gpbft.ActorID]int
	Now     time.Time
	Pool    []*Pending
	seq     int
	Step    int
	Trace   []string
	TraceOn bool
	// everything honest nodes ever signed: evidence for the coalition
	Evidence *Evidence
	Stats    Stats
	// Fail is called on a monitor violation (id, signature, message)
	Fail func(id, sig, msg string)
	// NoLoss: honest-to-honest messages may not be dropped (C06 regime)
	ByzEverSent bool
	Tracer      *tracer
	// HoldRound is the round whose COMMITs the "late-commit"/"hijack" profiles withhold
	HoldRound    uint64
	hijacked     map[[2]uint64]bool
	pushed       map[[3]uint64]bool
	transplanted map[[2]uint64]bool
	// rules[phase][destination side] of the "rules" profile: 0 free, 1 withheld across sides,
	// 2 withheld from everybody but the sender; bind rounds <= ruleRounds
	rules      [8][2]int
	ruleRounds uint64
	// curLag is the node that currently hears nothing under the "rotlag" profile (-1: none)
	curLag int
	// GreedyDecide: adversarial strategy "decide whatever is decidable, at once" (kills.go)
	GreedyDecide bool
	killQueue    []killTarget
	killed       map[string]bool // instance/value already realised
	victims      map[int]bool
	// StrictlyTimely: the closing phase delivers strictly within the synchrony bound
	StrictlyTimely bool
	// Inbox: validated messages not yet handed to the participant (per node index)
	Inbox map[int][]*staged
	// rebroadcasting is set while a RequestRebroadcast is being served
	rebroadcasting bool
}

type Stats struct {
	Delivered, Dropped, Duplicated, AlarmsFired, ByzSent, ByzAccepted, ByzRejected int
	InvalidByHonest                                                                int
	MaxRound                                                                       uint64
	Sways, SkipsRound, SkipsDecide, Rebroadcasts                                   int
	LateCommitDecisions                                                            int
	HijackConverges, HijackCommits, ForgedFloods, SuppVariants, Poisons            int
	TwoStage, Transplants                                                          int
	Staged, StagedReceived, StaleEvidence, Kills, KillDecisions                    int
}

type tracer struct{ w *World }

func (t *tracer) Log(format string, args ...any) {
	if t.w == nil {
		return
	}
	s := fmt.Sprintf(format, args...)
	switch {
	case contains(s, "swaying"):
		t.w.Stats.Sways++
	case contains(s, "skipping from round"):
		t.w.Stats.SkipsRound++
	case contains(s, "rebroadcasting"):
		t.w.Stats.Rebroadcasts++
	}
}

func contains(s, sub string) bool {
	return len(sub) <= len(s) && (func() bool {
		for i := 0; i+len(sub) <= len(s); i++ {
			if s[i:i+len(sub)] == sub {
				return true
			}
		}
		return false
	})()
}

// host implements gpbft.Host for one node.
type host struct {
	vcrypto.Scheme
	n *Node
}

var _ gpbft.Host = (*host)(nil)

func (h *host) NetworkName() gpbft.NetworkName { return h.n.W.Cfg.NN }

func (h *host) GetProposal(_ context.Context, instance uint64) (*gpbft.SupplementalData, *gpbft.ECChain, error) {
	n := h.n
	ic := n.W.Cfg.Inst(instance)
	if ic == nil {
		return nil, nil, fmt.Errorf("no instance %d configured", instance)
	}
	base := n.W.Cfg.Root
	if instance > n.W.Cfg.First {
		d := n.Decided[instance-1]
		if d == nil {
			return nil, nil, fmt.Errorf("instance %d not decided yet", instance-1)
		}
		base = d.J.Vote.Value.Head()
	}
	path := ic.Paths[n.ID]
	if n.Byz {
		// a personality proposes what its side proposes
		for i, h := range n.W.Nodes {
			if n.W.Group[i] == n.Group {
				path = ic.Paths[h.ID]
				break
			}
		}
	}
	if n.Divergent && !n.W.Cfg.DivergentSupp {
		cp := *base
		cp.PowerTable = gpbft.MakeCid([]byte("diverged-derived-state"))
		base = &cp
	}
	chain := PathChain(base, path)
	n.Bases[instance] = base
	// the participant proposes at most ChainMaxLen tipsets of what the host returns
	n.Inputs[instance] = chain.Prefix(gpbft.ChainMaxLen - 1)
	sd := ic.Supp
	if n.Divergent && n.W.Cfg.DivergentSupp {
		sd.Commitments[0] ^= 0x5a
		sd.Commitments[31] ^= 0xa5
	}
	n.Supps[instance] = sd
	n.Mon.onStart(instance, chain)
	return &sd, cloneChain(chain), nil
}

func (h *host) GetCommittee(_ context.Context, instance uint64) (*gpbft.Committee, error) {
	return h.n.W.Committee(instance)
}

func (w *World) Committee(instance uint64) (*gpbft.Committee, error) {
	ic := w.Cfg.Inst(instance)
	if ic == nil {
		return nil, fmt.Errorf("no committee for instance %d", instance)
	}
	pt := gpbft.NewPowerTable()
	cp := make(gpbft.PowerEntries, len(ic.Table))
	copy(cp, ic.Table)
	if err := pt.Add(cp...); err != nil {
		return nil, err
	}
	agg, _ := vcrypto.Scheme{}.Aggregate(pt.Entries.PublicKeys())
	return &gpbft.Committee{PowerTable: pt, Beacon: ic.Beacon, AggregateVerifier: agg}, nil
}

func (h *host) RequestBroadcast(mb *gpbft.MessageBuilder) error {
	n := h.n
	msg, err := mb.Build(context.Background(), vcrypto.Scheme{}, n.ID)
	if err != nil {
		if errors.Is(err, gpbft.ErrNoPower) {
			return nil // a member without effective power stays silent
		}
		return err
	}
	s := &Sent{From: n.ID, Msg: msg, At: n.W.Now, Step: n.W.Step}
	n.byInst[gpbft.Instant{ID: msg.Vote.Instance, Round: msg.Vote.Round, Phase: msg.Vote.Phase}] = msg
	if n.Byz {
		n.Sent = append(n.Sent, s)
		n.W.ByzEverSent = true
		n.W.Stats.ByzSent++
		n.W.enqueueFromPersona(n, msg)
		return nil
	}
	n.Mon.onBroadcast(s)
	n.Sent = append(n.Sent, s)
	if msg.Vote.Round > n.W.Stats.MaxRound {
		n.W.Stats.MaxRound = msg.Vote.Round
	}
	n.W.Evidence.Add(msg)
	n.W.enqueueAll(msg, false)
	if n.W.GreedyDecide && msg.Vote.Phase == gpbft.DECIDE_PHASE {
		n.W.noteDecide(msg)
	}
	return nil
}

func (h *host) RequestRebroadcast(in gpbft.Instant) error {
	n := h.n
	msg, ok := n.byInst[in]
	if !ok {
		return nil
	}
	n.W.Stats.Rebroadcasts++
	// a rebroadcast whose earlier copy is still in flight to a destination adds nothing for
	// that destination (the pool would otherwise fill up with identical copies and the
	// scheduler would spend its steps re-delivering them)
	n.W.rebroadcasting = true
	defer func() { n.W.rebroadcasting = false }()
	if n.Byz {
		n.W.enqueueFromPersona(n, msg)
		return nil
	}
	n.W.enqueueAll(msg, false)
	return nil
}

func (h *host) Time() time.Time { return h.n.W.Now }

func (h *host) SetAlarm(at time.Time) {
	h.n.Alarm, h.n.AlarmSet = at, !at.IsZero()
	h.n.lastAlarmInCall, h.n.alarmInCall = at, true
}

func (h *host) ReceiveDecision(_ context.Context, j *gpbft.Justification) (time.Time, error) {
	n := h.n
	inst := j.Vote.Instance
	if prev, ok := n.Decided[inst]; ok && !n.Byz {
		n.W.Fail("C01", "C01/decision/reported-twice", fmt.Sprintf("node %d reported a second decision for instance %d (first at step %d)", n.ID, inst, prev.Step))
	}
	n.Decided[inst] = &Decision{Instance: inst, J: j, Step: n.W.Step, Round: n.P.Progress().Round}
	n.Mon.onDecision(j)
	if inst >= n.W.Cfg.Last() {
		return n.W.Now.Add(1000 * time.Hour), nil // park: nothing further is configured
	}
	return n.W.Now.Add(n.W.Cfg.Delta), nil
}

func cloneChain(c *gpbft.ECChain) *gpbft.ECChain {
	if c == nil {
		return nil
	}
	out := &gpbft.ECChain{TipSets: make([]*gpbft.TipSet, len(c.TipSets))}
	for i, ts := range c.TipSets {
		cp := *ts
		cp.Key = append([]byte(nil), ts.Key...)
		out.TipSets[i] = &cp
	}
	return out
}

// NewWorld creates the participants (not yet started).
func NewWorld(cfg *Config, fail func(id, sig, msg string)) (*World, error) {
	w := &World{Cfg: cfg, Now: Epoch0, ByIdx: map[gpbft.ActorID]int{}, Evidence: NewEvidence(), Fail: fail}
	w.Tracer = &tracer{w: w}
	for i, id := range cfg.Honest {
		n := &Node{W: w, Idx: i, ID: id, Decided: map[uint64]*Decision{}, Bases: map[uint64]*gpbft.TipSet{}, Supps: map[uint64]gpbft.SupplementalData{}, Inputs: map[uint64]*gpbft.ECChain{}, byInst: map[gpbft.Instant]*gpbft.GMessage{}}
		n.Mon = newMonitor(n)
		for _, d := range cfg.Divergent {
			if d == id {
				n.Divergent = true
			}
		}
		opts := append([]gpbft.Option{}, cfg.Options...)
		opts = append(opts, gpbft.WithTracer(w.Tracer))
		p, err := gpbft.NewParticipant(&host{n: n}, opts...)
		if err != nil {
			return nil, err
		}
		n.P = p
		w.Nodes = append(w.Nodes, n)
		w.ByIdx[id] = i
	}
	w.Group = map[int]int{}
	if cfg.TwoFaced {
		for i := range w.Nodes {
			if i >= len(w.Nodes)/2 {
				w.Group[i] = 1
			} else {
				w.Group[i] = 0
			}
		}
		for g := 0; g < 2; g++ {
			for _, id := range cfg.Byz {
				n := &Node{W: w, Byz: true, Group: g, Idx: len(w.Nodes) + len(w.Personas), ID: id, Decided: map[uint64]*Decision{}, Bases: map[uint64]*gpbft.TipSet{}, Supps: map[uint64]gpbft.SupplementalData{}, Inputs: map[uint64]*gpbft.ECChain{}, byInst: map[gpbft.Instant]*gpbft.GMessage{}}
				n.Mon = newMonitor(n)
				opts := append([]gpbft.Option{}, cfg.Options...)
				p, err := gpbft.NewParticipant(&host{n: n}, opts...)
				if err != nil {
					return nil, err
				}
				n.P = p
				w.Personas = append(w.Personas, n)
			}
		}
	}
	return w, nil
}

// At returns the node (honest or persona) with global index i.
func (w *World) At(i int) *Node {
	if i < len(w.Nodes) {
		return w.Nodes[i]
	}
	return w.Personas[i-len(w.Nodes)]
}

func (w *World) enqueueAll(msg *gpbft.GMessage, fromByz bool) {
	for i := range w.Nodes {
		w.enqueue(msg, i, fromByz)
	}
	// personalities only listen to the honest participants of their own side
	if from, ok := w.ByIdx[msg.Sender]; ok && !fromByz {
		for _, pn := range w.Personas {
			if pn.Group == w.Group[from] {
				w.enqueue(msg, pn.Idx, false)
			}
		}
	}
}

// enqueueFromPersona: a personality talks only to its own side (and to the
// coalition's other personalities of that side, itself included).
func (w *World) enqueueFromPersona(pn *Node, msg *gpbft.GMessage) {
	for i := range w.Nodes {
		if w.Group[i] == pn.Group {
			w.enqueue(msg, i, true)
		}
	}
	for _, o := range w.Personas {
		if o.Group == pn.Group {
			w.enqueue(msg, o.Idx, true)
		}
	}
}

func (w *World) enqueue(msg *gpbft.GMessage, to int, fromByz bool) {
	if w.rebroadcasting {
		for _, p := range w.Pool {
			if p.Msg == msg && p.To == to {
				return
			}
		}
	}
	w.seq++
	w.Pool = append(w.Pool, &Pending{Msg: msg, To: to, FromByz: fromByz, SentAt: w.Now, Seq: w.seq})
}

func (w *World) tracef(f string, a ...any) {
	if w.TraceOn || len(w.Trace) < 20000 {
		w.Trace = append(w.Trace, fmt.Sprintf("%d: ", w.Step)+fmt.Sprintf(f, a...))
	}
}

// call wraps an API invocation on a node and checks clause (d)/(c) of C07.
func (n *Node) call(kind string, f func() error) {
	if n.Byz {
		_ = f()
		return
	}
	n.inCall, n.alarmInCall, n.curCall = true, false, kind
	before := n.P.Progress()
	err := f()
	n.inCall = false
	after := n.P.Progress()
	n.Mon.afterCall(kind, before.Instant, after.Instant, err)
}

// Start starts node i at the first instance.
func (w *World) Start(i int) {
	n := w.At(i)
	if n.Started {
		return
	}
	n.Started = true
	w.Step++
	w.tracef("start node %d", n.ID)
	n.call("start", func() error { return n.P.StartInstanceAt(w.Cfg.First, w.Now) })
}

// FireAlarm delivers node i's alarm; the clock moves to the alarm time if it
// is still in the future (timers may be late, never early).
func (w *World) FireAlarm(i int) {
	n := w.At(i)
	if !n.AlarmSet {
		return
	}
	w.Step++
	if n.Alarm.After(w.Now) {
		w.Now = n.Alarm
	}
	n.AlarmSet = false
	w.Stats.AlarmsFired++
	w.tracef("alarm node %d at +%v (progress %v)", n.ID, w.Now.Sub(Epoch0), fmtInstant(n.P.Progress().Instant))
	n.call("alarm", func() error { return n.P.ReceiveAlarm(context.Background()) })
}

func fmtInstant(i gpbft.Instant) string { return fmt.Sprintf("{%d,%d,%s}", i.ID, i.Round, i.Phase) }

// Deliver hands pool entry k to its destination (validation first, as a host does).
func (w *World) Deliver(k int) {
	p := w.Pool[k]
	w.Pool = append(w.Pool[:k], w.Pool[k+1:]...)
	w.deliver(p)
}

func (w *World) Duplicate(k int) {
	p := w.Pool[k]
	w.Stats.Duplicated++
	cp := *p
	w.seq++
	cp.Seq = w.seq
	w.Pool = append(w.Pool, &cp)
}

func (w *World) Drop(k int) {
	p := w.Pool[k]
	w.Pool = append(w.Pool[:k], w.Pool[k+1:]...)
	w.Stats.Dropped++
	w.Step++
	w.tracef("drop %s -> node %d", DescribeMsg(p.Msg), w.At(p.To).ID)
}

// Stage validates pool entry k now and parks the validated message in the destination's
// inbox; ReceiveStaged hands it to the participant later. This is what a production host
// does (pubsub validator first, then a queue in front of ReceiveMessage), so the progress a
// message was validated against and the progress it is received in may differ.
func (w *World) Stage(k int) {
	p := w.Pool[k]
	w.Pool = append(w.Pool[:k], w.Pool[k+1:]...)
	w.deliverOrStage(p, true)
}

type staged struct {
	vm      gpbft.ValidatedMessage
	msg     *gpbft.GMessage
	fromByz bool
}

// ReceiveStaged hands the oldest staged message of node i to its participant.
func (w *World) ReceiveStaged(i int) {
	q := w.Inbox[i]
	if len(q) == 0 {
		return
	}
	st := q[0]
	w.Inbox[i] = q[1:]
	n := w.Nodes[i]
	w.Step++
	w.Stats.StagedReceived++
	w.tracef("receive staged %s -> node %d (progress %v)", DescribeMsg(st.msg), n.ID, fmtInstant(n.P.Progress().Instant))
	n.Mon.onDeliver(st.msg, st.fromByz)
	n.call("message", func() error { return n.P.ReceiveMessage(context.Background(), st.vm) })
}

// DrainInboxes receives everything staged, oldest first.
func (w *World) DrainInboxes() {
	for i := range w.Nodes {
		for len(w.Inbox[i]) > 0 {
			w.ReceiveStaged(i)
		}
	}
}

func (w *World) deliver(p *Pending) { w.deliverOrStage(p, false) }

func (w *World) deliverOrStage(p *Pending, stage bool) {
	if p.To >= len(w.Nodes)+len(w.Personas) {
		return // addressed to a personality that no longer exists
	}
	n := w.At(p.To)
	w.Step++
	if !n.Started {
		// a host that has not started its participant yet still validates and queues
		// messages in real deployments only after start; model: the message waits.
		w.Pool = append(w.Pool, p)
		return
	}
	msg := cloneMsg(p.Msg)
	var vm gpbft.ValidatedMessage
	var err error
	if w.Cfg.PartialPath && !n.Byz {
		vm, err = w.validateInTwoStages(n, msg)
	} else {
		vm, err = n.P.ValidateMessage(context.Background(), msg)
	}
	if err != nil {
		if p.FromByz {
			w.Stats.ByzRejected++
		} else if errors.Is(err, gpbft.ErrValidationInvalid) && !n.Byz {
			w.Stats.InvalidByHonest++
			w.Fail("C07", "C07/b/honest-message-branded-invalid", fmt.Sprintf("message %s emitted by honest node %d was judged invalid by honest node %d: %v", DescribeMsg(p.Msg), p.Msg.Sender, n.ID, err))
		}
		var pe *gpbft.PanicError
		if errors.As(err, &pe) {
			w.Fail("C07", "C07/d/validate-panic", fmt.Sprintf("ValidateMessage panicked on node %d: %v", n.ID, err))
		}
		w.tracef("reject %s -> node %d: %s", DescribeMsg(p.Msg), n.ID, classOf(err))
		return
	}
	if p.FromByz && !n.Byz {
		w.Stats.ByzAccepted++
	}
	w.Stats.Delivered++
	if stage && !n.Byz {
		if w.Inbox == nil {
			w.Inbox = map[int][]*staged{}
		}
		w.Inbox[p.To] = append(w.Inbox[p.To], &staged{vm: vm, msg: msg, fromByz: p.FromByz})
		w.Stats.Staged++
		w.tracef("validate+stage %s -> node %d (progress %v)", DescribeMsg(p.Msg), n.ID, fmtInstant(n.P.Progress().Instant))
		return
	}
	w.tracef("deliver %s -> node %d (progress %v)", DescribeMsg(p.Msg), n.ID, fmtInstant(n.P.Progress().Instant))
	if n.Byz {
		_ = n.P.ReceiveMessage(context.Background(), vm)
		return
	}
	n.Mon.onDeliver(msg, p.FromByz)
	n.call("message", func() error { return n.P.ReceiveMessage(context.Background(), vm) })
}

var nilPMM *pmsg.PartialMessageManager

// validateInTwoStages sends msg through the production two-stage path: ToPartialGMessage
// (the chains are removed, the value key announced), PartiallyValidateMessage, completion
// with the chain the sender voted for (as the chain exchange would deliver it: looked up
// by the announced key) and justification-value inference, FullyValidateMessage.
func (w *World) validateInTwoStages(n *Node, msg *gpbft.GMessage) (gpbft.ValidatedMessage, error) {
	chain := cloneChain(msg.Vote.Value)
	pm, err := nilPMM.ToPartialGMessage(msg)
	if err != nil {
		return nil, fmt.Errorf("stripping: %v: %w", err, gpbft.ErrValidationInvalid)
	}
	pv, err := n.P.PartiallyValidateMessage(context.Background(), pm)
	if err != nil {
		return nil, err
	}
	w.Stats.TwoStage++
	cm := pv.PartialMessage()
	cm.Vote.Value = chain
	pmsg.VerifInferJustificationVoteValue(cm)
	vm, err := n.P.FullyValidateMessage(context.Background(), pv)
	if err == nil {
		// what reaches the participant is the completed message
		*msg = *cm.GMessage
	}
	return vm, err
}

func classOf(err error) string {
	switch {
	case errors.Is(err, gpbft.ErrValidationInvalid):
		return "invalid"
	case errors.Is(err, gpbft.ErrValidationTooOld):
		return "too-old"
	case errors.Is(err, gpbft.ErrValidationNotRelevant):
		return "not-relevant"
	case errors.Is(err, gpbft.ErrValidationNoCommittee):
		return "no-committee"
	}
	return "error:" + err.Error()
}

func DescribeMsg(m *gpbft.GMessage) string {
	j := ""
	if m.Justification != nil {
		j = fmt.Sprintf(" just=%s@%d/len%d", m.Justification.Vote.Phase, m.Justification.Vote.Round, m.Justification.Vote.Value.Len())
	}
	k := m.Vote.Value.Key()
	return fmt.Sprintf("%s{i%d r%d len%d %x from %d%s}", m.Vote.Phase, m.Vote.Instance, m.Vote.Round, m.Vote.Value.Len(), k[:3], m.Sender, j)
}

func cloneMsg(m *gpbft.GMessage) *gpbft.GMessage {
	out := *m
	out.Vote.Value = cloneChain(m.Vote.Value)
	if m.Vote.Value == nil {
		out.Vote.Value = &gpbft.ECChain{}
	}
	if m.Justification != nil {
		j := *m.Justification
		j.Vote.Value = cloneChain(m.Justification.Vote.Value)
		if j.Vote.Value == nil {
			j.Vote.Value = &gpbft.ECChain{}
		}
		out.Justification = &j
	}
	return &out
}

// SuppOf is the supplemental data node n runs instance inst with (its own view).
func (n *Node) SuppOf(inst uint64) gpbft.SupplementalData {
	if sd, ok := n.Supps[inst]; ok {
		return sd
	}
	return n.W.Cfg.Inst(inst).Supp
}

// AllDecided reports whether every started live node decided the last instance.
func (w *World) AllDecided() bool {
	for _, n := range w.Nodes {
		if n.Started && !n.Divergent {
			if _, ok := n.Decided[w.Cfg.Last()]; !ok {
				return false
			}
		}
	}
	return true
}

// ScaledOf returns scaled power of id in instance inst (reference computation).
func (c *Config) ScaledOf(inst uint64, id gpbft.ActorID) int64 {
	ic := c.Inst(inst)
	scaled, _ := vref.Scaled(ic.Table)
	for i, e := range ic.Table {
		if e.ID == id {
			return scaled[i]
		}
	}
	return 0
}

func (c *Config) IndexOf(inst uint64, id gpbft.ActorID) int {
	for i, e := range c.Inst(inst).Table {
		if e.ID == id {
			return i
		}
	}
	return -1
}

func sortedIDs(m map[gpbft.ActorID]bool) []gpbft.ActorID {
	out := make([]gpbft.ActorID, 0, len(m))
	for id := range m {
		out = append(out, id)
	}
	sort.Slice(out, func(i, j int) bool { return out[i] < out[j] })
	return out
}

var _ = cid.Undef
