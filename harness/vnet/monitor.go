package vnet

import (
	"errors"
	"fmt"
	"time"

	"github.com/filecoin-project/go-f3/gpbft"
	"github.com/filecoin-project/go-f3/verifharness/vref"
)

// delivered is one message that counted for a node: accepted by its
// ValidateMessage and handed to ReceiveMessage.
type delivered struct {
	Msg       *gpbft.GMessage
	RoundAt   uint64 // node's round when delivered (0 if the instance had not started)
	QueuedFor bool   // delivered before the node started that instance
	Step      int
	FromByz   bool
}

type emitted struct {
	Msg      *gpbft.GMessage
	At       time.Time
	Deadline time.Time // alarm set in the same call right before the broadcast
	HasDL    bool
	Step     int
}

// Monitor checks protocol discipline (C07) of one honest node from what was
// actually delivered to it.
type Monitor struct {
	n         *Node
	deliv     map[uint64][]*delivered
	emit      map[gpbft.Instant]*emitted
	prepare0  map[uint64]*gpbft.ECChain // round-0 PREPARE value per instance
	prepares  map[uint64]map[uint64]*emitted
	Emissions int
	Labels    map[string]int
}

func newMonitor(n *Node) *Monitor {
	return &Monitor{n: n, deliv: map[uint64][]*delivered{}, emit: map[gpbft.Instant]*emitted{}, prepare0: map[uint64]*gpbft.ECChain{}, prepares: map[uint64]map[uint64]*emitted{}, Labels: map[string]int{}}
}

func (m *Monitor) fail(sig, f string, a ...any) {
	m.n.W.Fail("C07", sig, fmt.Sprintf("node %d: ", m.n.ID)+fmt.Sprintf(f, a...))
}

func (m *Monitor) onStart(instance uint64, input *gpbft.ECChain) {}

func (m *Monitor) onDeliver(msg *gpbft.GMessage, fromByz bool) {
	n := m.n
	prog := n.P.Progress()
	d := &delivered{Msg: msg, Step: n.W.Step, FromByz: fromByz}
	switch {
	case msg.Vote.Instance == prog.ID && prog.Phase != gpbft.INITIAL_PHASE:
		d.RoundAt = prog.Round
	case msg.Vote.Instance >= prog.ID:
		d.QueuedFor = true
	default:
		return // past instance: dropped by the participant
	}
	m.deliv[msg.Vote.Instance] = append(m.deliv[msg.Vote.Instance], d)
}

// votes enumerates what the node may legitimately have tallied for (instance,
// round, phase). An honest sender contributes exactly one vote (its message,
// however often it was delivered). A sender of which several different
// messages for the same slot were delivered (an equivocator), or whose message
// carries a foreign base / supplemental data, is ambiguous: the implementation
// is entitled to count any one of its admissible messages or none (which one
// depends on documented de-duplication in the pre-start queue versus the
// tally). The clauses are therefore evaluated for every assignment and only
// fail if no assignment satisfies them.
func (m *Monitor) votes(instance, round uint64, phase gpbft.Phase) (fixed []*delivered, ambiguous [][]*delivered) {
	n := m.n
	base := n.Bases[instance]
	type senderVotes struct {
		uniq    []*delivered
		keys    map[string]bool
		foreign bool
	}
	bySender := map[gpbft.ActorID]*senderVotes{}
	var order []gpbft.ActorID
	for _, d := range m.deliv[instance] {
		v := d.Msg.Vote
		if v.Phase != phase || v.Round != round {
			continue
		}
		if (phase == gpbft.PREPARE_PHASE || phase == gpbft.CONVERGE_PHASE) && !d.QueuedFor && round < d.RoundAt {
			continue // the protocol drops PREPARE/CONVERGE of rounds already left
		}
		sv := bySender[d.Msg.Sender]
		if sv == nil {
			sv = &senderVotes{keys: map[string]bool{}}
			bySender[d.Msg.Sender] = sv
			order = append(order, d.Msg.Sender)
		}
		if own := n.SuppOf(instance); !v.SupplementalData.Eq(&own) || (!v.Value.IsZero() && (base == nil || !vref.TipSetEq(v.Value.TipSets[0], base))) {
			sv.foreign = true
			continue
		}
		k := v.Value.Key()
		key := string(k[:]) + "|" + string(d.Msg.Ticket)
		if !sv.keys[key] {
			sv.keys[key] = true
			sv.uniq = append(sv.uniq, d)
		}
	}
	for _, id := range order {
		sv := bySender[id]
		if len(sv.uniq) == 1 && !sv.foreign {
			fixed = append(fixed, sv.uniq[0])
		} else if len(sv.uniq) > 0 {
			ambiguous = append(ambiguous, append([]*delivered{nil}, sv.uniq...))
		}
	}
	return
}

// anyAssignment reports whether ok holds for at least one admissible tally.
// If there are too many assignments the clause is not evaluated (returns true).
func (m *Monitor) anyAssignment(instance, round uint64, phase gpbft.Phase, ok func(votes []*delivered) bool) bool {
	fixed, amb := m.votes(instance, round, phase)
	total := 1
	for _, a := range amb {
		total *= len(a)
		if total > 512 {
			m.Labels["clause-skipped-too-many-equivocations"]++
			return true
		}
	}
	if len(amb) > 0 {
		m.Labels["clause-evaluated-with-equivocating-sender"]++
	}
	idx := make([]int, len(amb))
	for {
		votes := append([]*delivered(nil), fixed...)
		for i, a := range amb {
			if a[idx[i]] != nil {
				votes = append(votes, a[idx[i]])
			}
		}
		if ok(votes) {
			return true
		}
		i := 0
		for i < len(idx) {
			idx[i]++
			if idx[i] < len(amb[i]) {
				break
			}
			idx[i] = 0
			i++
		}
		if i == len(idx) {
			return false
		}
	}
}

func (m *Monitor) onBroadcast(s *Sent) {
	n := m.n
	msg := s.Msg
	m.Emissions++
	inst := msg.Vote.Instance
	in := gpbft.Instant{ID: inst, Round: msg.Vote.Round, Phase: msg.Vote.Phase}
	// (a) at most one message per instance, round and step
	if prev, dup := m.emit[in]; dup {
		m.fail("C07/a/duplicate-broadcast", "second broadcast for %s (first at step %d, value len %d; now value len %d)", fmtInstant(in), prev.Step, prev.Msg.Vote.Value.Len(), msg.Vote.Value.Len())
	}
	e := &emitted{Msg: msg, At: n.W.Now, Step: n.W.Step}
	if n.alarmInCall {
		e.Deadline, e.HasDL = n.lastAlarmInCall, true
	}
	m.emit[in] = e
	ic := n.W.Cfg.Inst(inst)
	if ic == nil {
		m.fail("C07/b/emission-for-unknown-instance", "broadcast for instance %d which is not configured", inst)
		return
	}
	// (b) valid under the protocol rules (independent reference validator)
	if v := vref.ValidateMessage(n.W.Cfg.NN, vref.Committee{Entries: ic.Table, Beacon: ic.Beacon}, msg); !v.Valid {
		m.fail("C07/b/emitted-invalid-message", "emitted %s is invalid under the protocol rules: %s", DescribeMsg(msg), v.Reason)
	}
	if msg.Sender != n.ID {
		m.fail("C07/b/wrong-sender", "emitted a message with sender %d", msg.Sender)
	}
	if own := n.SuppOf(inst); !msg.Vote.SupplementalData.Eq(&own) {
		m.fail("C07/b/wrong-supplement", "emitted %s with supplemental data other than the instance's", DescribeMsg(msg))
	}
	input := n.Inputs[inst]
	val := msg.Vote.Value
	scaled, total := vref.Scaled(ic.Table)
	power := func(id gpbft.ActorID) int64 {
		if i := n.W.Cfg.IndexOf(inst, id); i >= 0 {
			return scaled[i]
		}
		return 0
	}
	if msg.Vote.Round >= 1 {
		m.Labels["emission-round>=1"]++
	}
	// (h) only values that are prefixes of the own input or carry proof of a strong quorum
	if !val.IsZero() {
		if !vref.IsPrefix(val, input) {
			m.Labels["vote-outside-own-input"]++
			proven := false
			for _, d := range m.deliv[inst] {
				if j := d.Msg.Justification; j != nil && vref.ChainEq(j.Vote.Value, val) {
					proven = true
					break
				}
			}
			if !proven {
				m.fail("C07/h/unproven-foreign-value", "voted %s for a value that is neither a prefix of its input (len %d) nor the value of any justification delivered to it", DescribeMsg(msg), input.Len())
			}
		}
		if base := n.Bases[inst]; base == nil || !vref.TipSetEq(val.TipSets[0], base) {
			m.fail("C07/h/foreign-base", "voted %s for a chain that does not start at its base", DescribeMsg(msg))
		}
	}
	switch {
	case msg.Vote.Phase == gpbft.QUALITY_PHASE:
		if !vref.ChainEq(val, input) {
			m.fail("C07/e/quality-not-input", "QUALITY value (len %d) is not the input (len %d)", val.Len(), input.Len())
		}
	case msg.Vote.Phase == gpbft.PREPARE_PHASE && msg.Vote.Round == 0:
		// (e) longest prefix of the input backed by a strong quorum of delivered QUALITY votes
		longest := func(qs []*delivered) int {
			for l := input.Len(); l >= 2; l-- {
				prefix := &gpbft.ECChain{TipSets: input.TipSets[:l]}
				var sup int64
				for _, d := range qs {
					if vref.IsPrefix(prefix, d.Msg.Vote.Value) {
						sup += power(d.Msg.Sender)
					}
				}
				if vref.StrongQuorum(sup, total) {
					return l
				}
			}
			return 1 // the base alone
		}
		best := -1
		okE := vref.IsPrefix(val, input) && m.anyAssignment(inst, 0, gpbft.QUALITY_PHASE, func(qs []*delivered) bool {
			b := longest(qs)
			if best < 0 {
				best = b
			}
			return b == val.Len()
		})
		if !okE {
			fixed, amb := m.votes(inst, 0, gpbft.QUALITY_PHASE)
			votes := ""
			for _, d := range fixed {
				votes += fmt.Sprintf(" [sender %d power %d chain len %d common-with-input %d]", d.Msg.Sender, power(d.Msg.Sender), d.Msg.Vote.Value.Len(), commonLen(d.Msg.Vote.Value, input))
			}
			m.fail("C07/e/prepare0-not-longest-quorum-prefix", "round-0 PREPARE value has %d tipsets; the longest prefix of the input (len %d) with a strong quorum of the QUALITY votes delivered so far has %d (total scaled power %d; votes:%s; %d equivocating senders tried every way)", val.Len(), input.Len(), best, total, votes, len(amb))
		}
		m.prepare0[inst] = val
		if best < input.Len() {
			m.Labels["prepare0-shorter-than-input"]++
		}
	case msg.Vote.Phase == gpbft.PREPARE_PHASE && msg.Vote.Round >= 1:
		// (f) adopt the best-ticket CONVERGE value when it is a prefix of the round-0 proposal
		p0 := m.prepare0[inst]
		var bestSeen *delivered
		okF := m.anyAssignment(inst, msg.Vote.Round, gpbft.CONVERGE_PHASE, func(cs []*delivered) bool {
			var bestD *delivered
			bestRank := 0.0
			for _, d := range cs {
				r := gpbft.ComputeTicketRank(d.Msg.Ticket, power(d.Msg.Sender))
				if bestD == nil || r < bestRank {
					bestD, bestRank = d, r
				}
			}
			if bestD == nil || p0 == nil || !vref.IsPrefix(bestD.Msg.Vote.Value, p0) {
				return true // clause does not apply
			}
			bestSeen = bestD
			return vref.ChainEq(val, bestD.Msg.Vote.Value)
		})
		if bestSeen != nil {
			m.Labels["converge-winner-is-prefix-of-proposal"]++
			if bestSeen.Msg.Vote.Value.Len() < p0.Len() && bestSeen.Msg.Vote.Value.Len() > 1 {
				m.Labels["converge-winner-is-inner-prefix"]++
			}
		}
		if !okF {
			m.fail("C07/f/best-ticket-prefix-not-adopted", "PREPARE of round %d votes a value of %d tipsets although the best-ticket CONVERGE value delivered for that round (from %d, %d tipsets) is a prefix of its round-0 proposal (%d tipsets)", msg.Vote.Round, val.Len(), bestSeen.Msg.Sender, bestSeen.Msg.Vote.Value.Len(), p0.Len())
		}
	case msg.Vote.Phase == gpbft.COMMIT_PHASE && val.IsZero():
		// (g) never commit bottom while holding a strong PREPARE quorum for the proposal,
		// nor before the PREPARE timeout unless that quorum has become impossible
		m.Labels["commit-bottom"]++
		pe := m.emit[gpbft.Instant{ID: inst, Round: msg.Vote.Round, Phase: gpbft.PREPARE_PHASE}]
		if pe != nil {
			prop := pe.Msg.Vote.Value
			early := pe.HasDL && n.W.Now.Before(pe.Deadline)
			if early {
				m.Labels["commit-bottom-before-deadline"]++
			}
			var lastSup, lastVoted int64
			why := ""
			okG := m.anyAssignment(inst, msg.Vote.Round, gpbft.PREPARE_PHASE, func(ps []*delivered) bool {
				var sup, voted int64
				for _, d := range ps {
					voted += power(d.Msg.Sender)
					if vref.ChainEq(d.Msg.Vote.Value, prop) {
						sup += power(d.Msg.Sender)
					}
				}
				lastSup, lastVoted = sup, voted
				if vref.StrongQuorum(sup, total) {
					why = "holding a strong PREPARE quorum for its proposal"
					return false
				}
				if early && vref.StrongQuorum(sup+(total-voted), total) {
					why = "before the PREPARE timeout while that quorum was still possible"
					return false
				}
				return true
			})
			if !okG {
				sig := "C07/g/commit-bottom-with-prepare-quorum"
				if early && why != "holding a strong PREPARE quorum for its proposal" {
					sig = "C07/g/commit-bottom-early"
				}
				m.fail(sig, "COMMIT bottom in round %d at +%v %s (support %d, voted %d, total %d, PREPARE deadline set=%v +%v)", msg.Vote.Round, n.W.Now.Sub(Epoch0), why, lastSup, lastVoted, total, pe.HasDL, pe.Deadline.Sub(Epoch0))
			}
		}
	}
	if msg.Vote.Phase == gpbft.PREPARE_PHASE {
		if m.prepares[inst] == nil {
			m.prepares[inst] = map[uint64]*emitted{}
		}
		m.prepares[inst][msg.Vote.Round] = e
	}
}

func (m *Monitor) onDecision(j *gpbft.Justification) {}

func lessInstant(a, b gpbft.Instant) bool {
	if a.ID != b.ID {
		return a.ID < b.ID
	}
	if a.Round != b.Round {
		return a.Round < b.Round
	}
	return a.Phase < b.Phase
}

func (m *Monitor) afterCall(kind string, before, after gpbft.Instant, err error) {
	// (c) progress never moves backwards
	if lessInstant(after, before) {
		m.fail("C07/c/progress-went-backwards", "%s moved progress from %s to %s", kind, fmtInstant(before), fmtInstant(after))
	}
	// (d) no internal error or panic from validated input
	if err != nil {
		var pe *gpbft.PanicError
		if errors.As(err, &pe) {
			m.fail("C07/d/panic", "%s returned a panic error: %v", kind, firstLine(err.Error()))
		}
		if !errors.As(err, &gpbft.ValidationError{}) {
			m.fail("C07/d/internal-error", "%s returned a non-validation error: %v", kind, firstLine(err.Error()))
		}
		m.Labels["late-binding-validation-error"]++
	}
}

func firstLine(s string) string {
	for i := 0; i < len(s); i++ {
		if s[i] == '\n' {
			if i > 600 {
				return s[:600]
			}
			return s[:i]
		}
	}
	if len(s) > 600 {
		return s[:600]
	}
	return s
}

func commonLen(a, b *gpbft.ECChain) int {
	n := 0
	for n < a.Len() && n < b.Len() && vref.TipSetEq(a.TipSets[n], b.TipSets[n]) {
		n++
	}
	return n
}
