package vnet

import (
	"sort"

	"github.com/filecoin-project/go-bitfield"
	"github.com/filecoin-project/go-f3/gpbft"
	"github.com/filecoin-project/go-f3/verifharness/vcrypto"
	"github.com/filecoin-project/go-f3/verifharness/vref"
)

type evKey struct {
	Instance uint64
	Round    uint64
	Phase    gpbft.Phase
	Key      gpbft.ECChainKey
}

// Evidence is everything the coalition has observed: for each signed payload
// the signatures of the honest senders that broadcast it.
type Evidence struct {
	sigs   map[evKey]map[gpbft.ActorID][]byte
	values map[gpbft.ECChainKey]*gpbft.ECChain
	justs  []*gpbft.Justification // justifications carried by honest messages
}

func NewEvidence() *Evidence {
	return &Evidence{sigs: map[evKey]map[gpbft.ActorID][]byte{}, values: map[gpbft.ECChainKey]*gpbft.ECChain{}}
}

func (e *Evidence) Add(m *gpbft.GMessage) {
	k := evKey{m.Vote.Instance, m.Vote.Round, m.Vote.Phase, m.Vote.Value.Key()}
	if e.sigs[k] == nil {
		e.sigs[k] = map[gpbft.ActorID][]byte{}
	}
	e.sigs[k][m.Sender] = m.Signature
	if !m.Vote.Value.IsZero() {
		e.values[m.Vote.Value.Key()] = m.Vote.Value
	}
	if m.Justification != nil {
		e.justs = append(e.justs, m.Justification)
	}
}

// Values returns every non-bottom value seen in honest traffic (sorted by key).
func (e *Evidence) Values() []*gpbft.ECChain {
	keys := make([]gpbft.ECChainKey, 0, len(e.values))
	for k := range e.values {
		keys = append(keys, k)
	}
	sort.Slice(keys, func(i, j int) bool { return string(keys[i][:]) < string(keys[j][:]) })
	out := make([]*gpbft.ECChain, len(keys))
	for i, k := range keys {
		out[i] = e.values[k]
	}
	return out
}

// ByzJustify assembles a justification for (instance, round, phase, value)
// from observed honest signatures plus the coalition's own. ok=false if the
// evidence does not reach a strong quorum (then forged=true requests an
// under-powered one built from what is available — must be rejected).
func (w *World) ByzJustify(instance, round uint64, phase gpbft.Phase, value *gpbft.ECChain, allowUnderpowered bool) (*gpbft.Justification, bool) {
	ic := w.Cfg.Inst(instance)
	if ic == nil {
		return nil, false
	}
	scaled, total := vref.Scaled(ic.Table)
	k := evKey{instance, round, phase, value.Key()}
	have := map[int][]byte{}
	for id, sig := range w.Evidence.sigs[k] {
		if i := w.Cfg.IndexOf(instance, id); i >= 0 && scaled[i] > 0 {
			have[i] = sig
		}
	}
	v := value
	if v == nil {
		v = &gpbft.ECChain{}
	}
	payload := gpbft.Payload{Instance: instance, Round: round, Phase: phase, SupplementalData: ic.Supp, Value: v}
	bytesToSign := payload.MarshalForSigning(w.Cfg.NN)
	for _, id := range w.Cfg.Byz {
		if i := w.Cfg.IndexOf(instance, id); i >= 0 && scaled[i] > 0 {
			have[i] = vcrypto.RawSign(ic.Table[i].PubKey, bytesToSign)
		}
	}
	idx := make([]int, 0, len(have))
	var sum int64
	for i := range have {
		idx = append(idx, i)
		sum += scaled[i]
	}
	sort.Ints(idx)
	quorum := vref.StrongQuorum(sum, total)
	if !quorum && !allowUnderpowered {
		return nil, false
	}
	if len(idx) == 0 {
		return nil, false
	}
	sigs := make([][]byte, len(idx))
	set := make([]uint64, len(idx))
	for n, i := range idx {
		sigs[n] = have[i]
		set[n] = uint64(i)
	}
	agg := &vcrypto.Agg{Keys: ic.Table.PublicKeys()}
	a, err := agg.Aggregate(idx, sigs)
	if err != nil {
		return nil, false
	}
	return &gpbft.Justification{Vote: payload, Signers: bitfield.NewFromSet(set), Signature: a}, quorum
}

// ByzMessage builds and signs a message of Byzantine member id.
func (w *World) ByzMessage(id gpbft.ActorID, instance, round uint64, phase gpbft.Phase, value *gpbft.ECChain, j *gpbft.Justification) *gpbft.GMessage {
	ic := w.Cfg.Inst(instance)
	i := w.Cfg.IndexOf(instance, id)
	if ic == nil || i < 0 {
		return nil
	}
	v := value
	if v == nil {
		v = &gpbft.ECChain{}
	}
	pk := ic.Table[i].PubKey
	p := gpbft.Payload{Instance: instance, Round: round, Phase: phase, SupplementalData: ic.Supp, Value: v}
	m := &gpbft.GMessage{Sender: id, Vote: p, Signature: vcrypto.RawSign(pk, p.MarshalForSigning(w.Cfg.NN)), Justification: j}
	if phase == gpbft.CONVERGE_PHASE {
		m.Ticket = vcrypto.RawSign(pk, gpbft.VerifVRFInput(ic.Beacon, instance, round, w.Cfg.NN))
	}
	return m
}

// SendByz queues m for the given destination nodes.
func (w *World) SendByz(m *gpbft.GMessage, dests []int) {
	if m == nil {
		return
	}
	w.ByzEverSent = true
	w.Stats.ByzSent++
	w.Step++
	w.tracef("byz %s -> %v", DescribeMsg(m), dests)
	for _, d := range dests {
		w.enqueue(m, d, true)
	}
}
