package vnet

import (
	"fmt"
	"math"
	"sort"
	"time"

	"github.com/filecoin-project/go-f3/gpbft"
	"github.com/filecoin-project/go-f3/verifharness/vcrypto"
	"pgregory.net/rapid"
)

// Profile names a scheduling regime for the generated prefix.
var Profiles = []string{"near-sync", "random", "timeout-heavy", "partition", "equivocate", "late-commit", "gate", "gate", "laggard", "two-faced", "hijack", "rotlag", "rules", "rules"}

type RunOpts struct {
	Profile    string
	MaxSteps   int
	AllowDrop  bool // honest-to-honest loss allowed (not in the C06 regime)
	AllowByz   bool
	CloseSteps int
	// GreedyDecide switches the "decide whatever is decidable" strategy on (kills.go)
	GreedyDecide bool
}

type weights struct{ deliver, alarm, dup, drop, byz, start int }

func profileWeights(p string) weights {
	switch p {
	case "near-sync":
		return weights{deliver: 40, alarm: 2, dup: 1, drop: 0, byz: 2, start: 6}
	case "timeout-heavy":
		return weights{deliver: 8, alarm: 10, dup: 1, drop: 1, byz: 2, start: 3}
	case "equivocate":
		return weights{deliver: 12, alarm: 3, dup: 1, drop: 1, byz: 10, start: 4}
	case "partition", "late-commit":
		return weights{deliver: 16, alarm: 5, dup: 1, drop: 1, byz: 3, start: 4}
	case "hijack":
		return weights{deliver: 30, alarm: 4, dup: 1, drop: 0, byz: 8, start: 10}
	case "gate", "laggard":
		return weights{deliver: 30, alarm: 3, dup: 1, drop: 0, byz: 2, start: 8}
	case "rotlag":
		return weights{deliver: 30, alarm: 3, dup: 1, drop: 0, byz: 5, start: 12}
	case "rules":
		return weights{deliver: 30, alarm: 3, dup: 1, drop: 0, byz: 3, start: 10}
	case "two-faced":
		return weights{deliver: 40, alarm: 2, dup: 1, drop: 0, byz: 0, start: 10}
	default:
		return weights{deliver: 12, alarm: 4, dup: 2, drop: 2, byz: 4, start: 3}
	}
}

// held reports whether the profile currently withholds pending entry p.
func (w *World) held(profile string, p *Pending, step, healAt int, group map[int]int, holdRound uint64) bool {
	if step >= healAt {
		return false
	}
	if p.To >= len(w.Nodes) {
		return false // personalities hear their side at once
	}
	switch profile {
	case "partition", "two-faced":
		if p.FromByz {
			return false
		}
		from, ok := w.ByIdx[p.Msg.Sender]
		return ok && group[from] != group[p.To]
	case "late-commit":
		return p.Msg.Vote.Phase == gpbft.COMMIT_PHASE && p.Msg.Vote.Round == holdRound && p.To%2 == 0
	case "hijack":
		// Rounds end with COMMIT bottom as under "gate", but no honest node gets to see the
		// COMMIT quorum of the hold round or anybody else's CONVERGE of the next one before the
		// coalition has told it: the coalition is the first to carry the evidence.
		if p.FromByz {
			return false
		}
		from, ok := w.ByIdx[p.Msg.Sender]
		if !ok || from == p.To {
			return false
		}
		switch p.Msg.Vote.Phase {
		case gpbft.QUALITY_PHASE:
			return group[p.To] == 1
		case gpbft.COMMIT_PHASE:
			return p.Msg.Vote.Round == holdRound
		case gpbft.CONVERGE_PHASE:
			return p.Msg.Vote.Round == holdRound+1
		}
		return false
	case "rules":
		// a generated, per-case persistent rule set: for every step and destination side,
		// messages flow freely, are withheld when they come from the other side, or are withheld
		// from everybody but the sender itself; the rules bind rounds up to a generated bound
		if p.FromByz {
			return false
		}
		from, ok := w.ByIdx[p.Msg.Sender]
		if !ok || from == p.To {
			return false
		}
		if p.Msg.Vote.Round > w.ruleRounds {
			return false
		}
		ph := int(p.Msg.Vote.Phase)
		if ph < 0 || ph >= len(w.rules) {
			return false
		}
		switch w.rules[ph][group[p.To]%2] {
		case 1:
			return group[from] != group[p.To]
		case 2:
			return true
		}
		return false
	case "rotlag":
		// rotating laggard: the node whose turn it is hears nothing; when the others reach the
		// next round the role passes on and the former laggard receives its backlog newest
		// first (so it skips rounds); the others run the gate schedule
		if p.To == w.curLag {
			return true
		}
		return w.held("gate", p, step, healAt, group, holdRound)
	case "laggard":
		// node 0 hears nothing until the heal point while the others run the gate schedule
		if p.To == 0 {
			return true
		}
		fallthrough
	case "gate":
		// keep the two groups from agreeing on a proposal: group 1 sees no QUALITY
		// votes (it will propose the base), and each group sees only its own CONVERGE
		// values; everything else flows freely, so rounds keep ending with COMMIT bottom
		if p.FromByz {
			return false
		}
		from, ok := w.ByIdx[p.Msg.Sender]
		if !ok {
			return false
		}
		switch p.Msg.Vote.Phase {
		case gpbft.QUALITY_PHASE:
			return group[p.To] == 1 && from != p.To
		case gpbft.CONVERGE_PHASE:
			return group[from] != group[p.To]
		}
	}
	return false
}

// newestFor returns the position in deliverable of the pending entry for node to
// with the highest round (PREPARE before CONVERGE before the rest), or -1.
func (w *World) newestFor(deliverable []int, to int) int {
	best, bestRank := -1, int64(-1)
	for pos, k := range deliverable {
		p := w.Pool[k]
		if p.To != to || p.Msg.Vote.Instance != w.Nodes[to].P.Progress().ID {
			continue
		}
		rank := int64(p.Msg.Vote.Round) * 4
		switch p.Msg.Vote.Phase {
		case gpbft.PREPARE_PHASE:
			rank += 3
		case gpbft.CONVERGE_PHASE:
			rank += 2
		}
		if rank > bestRank {
			best, bestRank = pos, rank
		}
	}
	return best
}

func (w *World) maxHonestRound() uint64 {
	var r uint64
	for _, n := range w.Nodes {
		if n.Started {
			pr := n.P.Progress()
			if pr.ID <= w.Cfg.Last() && pr.Round > r {
				r = pr.Round
			}
		}
	}
	return r
}

// alarmEligible: never fire the far-future parking alarm of a finished node.
func (w *World) alarmEligible(n *Node) bool {
	return n.Started && n.AlarmSet && n.Alarm.Before(w.Now.Add(500*time.Hour))
}

// RunPrefix executes up to MaxSteps generated scheduling choices.
func (w *World) RunPrefix(t *rapid.T, o RunOpts) {
	wt := profileWeights(o.Profile)
	if !o.AllowDrop {
		wt.drop = 0
	}
	if !o.AllowByz || len(w.Cfg.Byz) == 0 {
		wt.byz = 0
	}
	group := w.Group
	hijackOff := 0
	if o.Profile == "hijack" {
		hijackOff = rapid.IntRange(0, 1).Draw(t, "hijackoff")
	}
	for i := range w.Nodes {
		if _, ok := group[i]; !ok {
			if o.Profile == "hijack" || o.Profile == "rotlag" || o.Profile == "rules" || (o.Profile == "laggard" && i > 0) {
				// alternate sides, so that neither side can reach a quorum on its own
				group[i] = (i + hijackOff) % 2
				continue
			}
			group[i] = rapid.IntRange(0, 1).Draw(t, "group")
		}
	}
	healAt := o.MaxSteps * rapid.IntRange(0, 4).Draw(t, "healquarters") / 4
	holdRound := uint64(rapid.IntRange(0, 2).Draw(t, "holdround"))
	if o.Profile == "hijack" && rapid.IntRange(0, 3).Draw(t, "hijackround0") > 0 {
		holdRound = 0
	}
	w.HoldRound = holdRound
	if o.Profile == "hijack" && healAt < o.MaxSteps/2 {
		healAt = o.MaxSteps / 2
	}
	if o.Profile == "laggard" {
		// the others need time to leave round 0 before the laggard hears the backlog, and the
		// backlog needs time to arrive within the prefix
		healAt = o.MaxSteps * rapid.IntRange(2, 3).Draw(t, "laghealquarters") / 4
	}
	// rapid's integer generators favour small values; the prefix length is drawn in
	// quarters of the budget so that long adversarial prefixes are the normal case
	steps := o.MaxSteps * rapid.IntRange(0, 4).Draw(t, "prefixquarters") / 4
	if steps > 0 {
		steps -= rapid.IntRange(0, min(steps, o.MaxSteps/8)).Draw(t, "prefixtrim")
	}
	if o.Profile == "hijack" && steps < o.MaxSteps/2 {
		steps = o.MaxSteps / 2
	}
	if o.Profile == "laggard" {
		steps = o.MaxSteps
	}
	if o.Profile == "rules" {
		for ph := range w.rules {
			for g := 0; g < 2; g++ {
				w.rules[ph][g] = rapid.SampledFrom([]int{0, 0, 0, 1, 1, 2}).Draw(t, "rule")
			}
		}
		w.ruleRounds = uint64(rapid.SampledFrom([]int{0, 0, 1, 2, 100}).Draw(t, "rulerounds"))
		steps = o.MaxSteps
		healAt = o.MaxSteps * rapid.IntRange(2, 4).Draw(t, "rulehealquarters") / 4
	}
	lagOff := 0
	w.curLag = -1
	if o.Profile == "rotlag" {
		steps, healAt = o.MaxSteps, o.MaxSteps
		lagOff = rapid.IntRange(0, len(w.Nodes)-1).Draw(t, "lagoff")
	}
	// laggard variants: 0 = node 0 runs on its timers but hears nothing until the heal point;
	// 1 = node 0 additionally starts only at the heal point (it is still in QUALITY when the
	// backlog arrives); 2 = as 1, and the backlog reaches it newest round first (PREPARE
	// before CONVERGE), which is what makes it skip rounds
	lagMode := 0
	if o.Profile == "laggard" && len(w.Nodes) > 1 {
		lagMode = rapid.IntRange(0, 2).Draw(t, "lagmode")
	}
	// in half of the cases some messages are validated first and received later (host queue)
	stageSome := rapid.Bool().Draw(t, "stagesome")
	// at least one node starts at once
	if lagMode > 0 {
		w.Start(rapid.IntRange(1, len(w.Nodes)-1).Draw(t, "firststart"))
	} else {
		w.Start(rapid.IntRange(0, len(w.Nodes)-1).Draw(t, "firststart"))
	}
	w.GreedyDecide = o.GreedyDecide
	defer func() { w.ProcessKills(); w.GreedyDecide = false }()
	for s := 0; s < steps; s++ {
		w.ProcessKills()
		if w.AllDecided() {
			break
		}
		if w.maxHonestRound() >= 12 {
			break // keep phase timeouts (delta * exponent^round) within time.Duration
		}
		prevLag := -1
		if o.Profile == "rotlag" && len(w.Nodes) > 2 {
			r := int(w.maxHonestRound())
			w.curLag = (r + lagOff) % len(w.Nodes)
			if r > 0 {
				prevLag = (r - 1 + lagOff) % len(w.Nodes)
			}
		}
		var deliverable []int
		for k, p := range w.Pool {
			if p.To < len(w.Nodes)+len(w.Personas) && w.At(p.To).Started && !w.held(o.Profile, p, s, healAt, group, holdRound) {
				deliverable = append(deliverable, k)
			}
		}
		var alarms, unstarted []int
		for i := 0; i < len(w.Nodes)+len(w.Personas); i++ {
			n := w.At(i)
			if w.alarmEligible(n) {
				alarms = append(alarms, i)
			}
			if !n.Started && !(lagMode > 0 && i == 0 && s < healAt) {
				unstarted = append(unstarted, i)
			}
		}
		if lagMode > 0 && s >= healAt && !w.Nodes[0].Started {
			w.Start(0)
			continue
		}
		type cat struct {
			name string
			w    int
		}
		var cats []cat
		if len(deliverable) > 0 {
			cats = append(cats, cat{"deliver", wt.deliver}, cat{"dup", wt.dup})
			if wt.drop > 0 {
				cats = append(cats, cat{"drop", wt.drop})
			}
		}
		var inboxes []int
		for i := range w.Nodes {
			if len(w.Inbox[i]) > 0 {
				inboxes = append(inboxes, i)
			}
		}
		if len(inboxes) > 0 {
			cats = append(cats, cat{"inbox", max(1, wt.deliver/3)})
		}
		if len(alarms) > 0 {
			cats = append(cats, cat{"alarm", wt.alarm})
		}
		if len(unstarted) > 0 {
			cats = append(cats, cat{"start", wt.start})
		}
		if wt.byz > 0 {
			cats = append(cats, cat{"byz", wt.byz})
		}
		total := 0
		for _, c := range cats {
			total += c.w
		}
		if total == 0 {
			break
		}
		x := rapid.IntRange(0, total-1).Draw(t, "cat")
		choice := ""
		for _, c := range cats {
			if x < c.w {
				choice = c.name
				break
			}
			x -= c.w
		}
		switch choice {
		case "deliver":
			k := 0
			if o.Profile == "near-sync" {
				// oldest first with a little jitter
				k = rapid.IntRange(0, min(3, len(deliverable)-1)).Draw(t, "pick")
			} else {
				k = rapid.IntRange(0, len(deliverable)-1).Draw(t, "pick")
			}
			if lagMode == 2 && s >= healAt && rapid.IntRange(0, 3).Draw(t, "newestfirst") > 0 {
				if nk := w.newestFor(deliverable, 0); nk >= 0 {
					k = nk
				}
			}
			if prevLag >= 0 && rapid.IntRange(0, 3).Draw(t, "newestfirst") > 0 {
				if nk := w.newestFor(deliverable, prevLag); nk >= 0 {
					k = nk
				}
			}
			if stageSome && rapid.IntRange(0, 3).Draw(t, "stage") == 0 {
				w.Stage(deliverable[k])
			} else {
				w.Deliver(deliverable[k])
			}
		case "inbox":
			w.ReceiveStaged(inboxes[rapid.IntRange(0, len(inboxes)-1).Draw(t, "inboxpick")])
		case "dup":
			w.Duplicate(deliverable[rapid.IntRange(0, len(deliverable)-1).Draw(t, "pick")])
		case "drop":
			k := deliverable[rapid.IntRange(0, len(deliverable)-1).Draw(t, "pick")]
			if w.Pool[k].FromByz || o.AllowDrop {
				w.Drop(k)
			}
		case "alarm":
			w.FireAlarm(alarms[rapid.IntRange(0, len(alarms)-1).Draw(t, "pick")])
		case "start":
			w.Start(unstarted[rapid.IntRange(0, len(unstarted)-1).Draw(t, "pick")])
		case "byz":
			w.ByzAction(t, o.Profile)
		}
	}
}

// ByzAction lets the coalition emit one generated message.
func (w *World) ByzAction(t *rapid.T, profile string) {
	cfg := w.Cfg
	if profile == "hijack" && rapid.IntRange(0, 4).Draw(t, "byzscript") > 0 && w.byzHijack() {
		return
	}
	if profile == "rotlag" && rapid.IntRange(0, 4).Draw(t, "byzscript") > 0 && w.byzPush() {
		return
	}
	if rapid.IntRange(0, 15).Draw(t, "byzflood") == 0 {
		w.byzForgedFlood(t)
		return
	}
	if rapid.IntRange(0, 5).Draw(t, "byztransplant") == 0 && w.byzTransplant(t) {
		return
	}
	if rapid.IntRange(0, 7).Draw(t, "byzpoison") == 0 && w.byzPoisonNext(t) {
		return
	}
	id := cfg.Byz[rapid.IntRange(0, len(cfg.Byz)-1).Draw(t, "byzid")]
	// target instance: that of some honest node, or the next one
	var insts []uint64
	seen := map[uint64]bool{}
	for _, n := range w.Nodes {
		pi := n.P.Progress().ID
		for _, x := range []uint64{pi, pi + 1} {
			if cfg.Inst(x) != nil && !seen[x] {
				seen[x] = true
				insts = append(insts, x)
			}
		}
	}
	if len(insts) == 0 {
		return
	}
	sort.Slice(insts, func(i, j int) bool { return insts[i] < insts[j] })
	inst := insts[rapid.IntRange(0, len(insts)-1).Draw(t, "byzinst")]
	round := uint64(rapid.IntRange(0, int(w.maxHonestRound())+1).Draw(t, "byzround"))
	// candidate values: everything seen in honest traffic, their prefixes, a foreign branch, a foreign base
	var vals []*gpbft.ECChain
	for _, v := range w.Evidence.Values() {
		if v.Len() > 0 {
			vals = append(vals, v)
		}
	}
	var base *gpbft.TipSet
	for _, n := range w.Nodes {
		if b := n.Bases[inst]; b != nil {
			base = b
		}
	}
	if base == nil && inst == cfg.First {
		base = cfg.Root
	}
	if base != nil {
		vals = append(vals, PathChain(base, nil), PathChain(base, []int{5}), PathChain(base, []int{0, 6}))
	}
	foreign := PathChain(&gpbft.TipSet{Epoch: 3, Key: []byte("foreign-base"), PowerTable: gpbft.MakeCid([]byte("f"))}, []int{0})
	vals = append(vals, foreign)
	value := vals[rapid.IntRange(0, len(vals)-1).Draw(t, "byzvalue")]
	if value.Len() > 1 && rapid.IntRange(0, 3).Draw(t, "byzprefix") == 0 {
		value = value.Prefix(rapid.IntRange(0, value.Len()-2).Draw(t, "byzprefixlen"))
	}
	kind := rapid.SampledFrom([]string{"quality", "prepare", "prepare", "commit", "commit", "commit-bottom", "converge", "converge", "decide"}).Draw(t, "byzkind")
	under := rapid.IntRange(0, 5).Draw(t, "byzunderpowered") == 0
	var m *gpbft.GMessage
	switch kind {
	case "quality":
		m = w.ByzMessage(id, inst, 0, gpbft.QUALITY_PHASE, value, nil)
	case "prepare":
		if round == 0 {
			m = w.ByzMessage(id, inst, 0, gpbft.PREPARE_PHASE, value, nil)
		} else if j, _ := w.byzPrevRoundJustification(t, inst, round, value, under); j != nil {
			m = w.ByzMessage(id, inst, round, gpbft.PREPARE_PHASE, value, j)
		}
	case "converge":
		if round == 0 {
			round = 1
		}
		if j, _ := w.byzPrevRoundJustification(t, inst, round, value, under); j != nil {
			m = w.ByzMessage(id, inst, round, gpbft.CONVERGE_PHASE, value, j)
		}
	case "commit":
		if j, _ := w.ByzJustify(inst, round, gpbft.PREPARE_PHASE, value, under); j != nil {
			m = w.ByzMessage(id, inst, round, gpbft.COMMIT_PHASE, value, j)
		}
	case "commit-bottom":
		m = w.ByzMessage(id, inst, round, gpbft.COMMIT_PHASE, nil, nil)
	case "decide":
		for r := uint64(0); r <= w.maxHonestRound(); r++ {
			if j, _ := w.ByzJustify(inst, r, gpbft.COMMIT_PHASE, value, under && r == w.maxHonestRound()); j != nil {
				m = w.ByzMessage(id, inst, 0, gpbft.DECIDE_PHASE, value, j)
				break
			}
		}
	}
	if m == nil {
		return
	}
	if rapid.IntRange(0, 7).Draw(t, "byzsuppvariant") == 0 {
		// the same vote over supplemental data that differs from the instance's only in its
		// commitments (same power-table CID), validly signed by the sender, any genuine
		// justification kept: it must never count anywhere
		m = w.suppVariant(m)
		w.Stats.SuppVariants++
	}
	// destinations: a generated subset (per-destination equivocation is the normal case)
	var dests []int
	for i := range w.Nodes {
		if rapid.IntRange(0, 2).Draw(t, "byzdest") > 0 {
			dests = append(dests, i)
		}
	}
	if len(dests) == 0 {
		dests = []int{rapid.IntRange(0, len(w.Nodes)-1).Draw(t, "byzdest1")}
	}
	w.SendByz(m, dests)
}

// byzHijack is the scripted part of the "hijack" profile: as soon as the evidence holds a
// strong quorum of COMMIT for bottom in the hold round, every coalition member sends a
// CONVERGE and a PREPARE of the next round for a chain nobody honest proposed, justified by
// that (genuine) quorum; once the evidence holds a PREPARE quorum for that chain, a COMMIT.
// Each stage happens once per instance; false if nothing could be done.
func (w *World) byzHijack() bool {
	cfg := w.Cfg
	inst := uint64(0)
	found := false
	for _, n := range w.Nodes {
		if n.Started {
			if pi := n.P.Progress().ID; cfg.Inst(pi) != nil && (!found || pi < inst) {
				inst, found = pi, true
			}
		}
	}
	if !found {
		return false
	}
	var base *gpbft.TipSet
	for _, n := range w.Nodes {
		if b := n.Bases[inst]; b != nil {
			base = b
		}
	}
	if base == nil && inst == cfg.First {
		base = cfg.Root
	}
	if base == nil {
		return false
	}
	if w.hijacked == nil {
		w.hijacked = map[[2]uint64]bool{}
	}
	evil := PathChain(base, []int{5})
	hr := w.HoldRound
	var all []int
	for i := range w.Nodes {
		all = append(all, i)
	}
	if j, ok := w.ByzJustify(inst, hr+1, gpbft.PREPARE_PHASE, evil, false); ok && j != nil && !w.hijacked[[2]uint64{inst, 1}] {
		w.hijacked[[2]uint64{inst, 1}] = true
		for _, id := range cfg.Byz {
			w.SendByz(w.ByzMessage(id, inst, hr+1, gpbft.COMMIT_PHASE, evil, j), all)
		}
		w.Stats.HijackCommits++
		return true
	}
	if j, ok := w.ByzJustify(inst, hr, gpbft.COMMIT_PHASE, nil, false); ok && j != nil && !w.hijacked[[2]uint64{inst, 0}] {
		w.hijacked[[2]uint64{inst, 0}] = true
		for _, id := range cfg.Byz {
			w.SendByz(w.ByzMessage(id, inst, hr+1, gpbft.CONVERGE_PHASE, evil, j), all)
			w.SendByz(w.ByzMessage(id, inst, hr+1, gpbft.PREPARE_PHASE, evil, j), all)
		}
		w.Stats.HijackConverges++
		return true
	}
	return false
}

// byzPush is the scripted part of the "rotlag" profile: the coalition keeps pushing one chain
// nobody honest proposed. For the newest round whose COMMIT-for-bottom quorum the evidence
// holds, every member sends CONVERGE and PREPARE of the next round for that chain justified
// by the (genuine) quorum; for the newest round with a PREPARE quorum for the chain (honest
// participants would have to have been swayed) a COMMIT, and for a COMMIT quorum a DECIDE.
// Each stage once per instance and round; false if nothing could be done.
func (w *World) byzPush() bool {
	cfg := w.Cfg
	inst := uint64(0)
	found := false
	for _, n := range w.Nodes {
		if n.Started {
			if pi := n.P.Progress().ID; cfg.Inst(pi) != nil && (!found || pi < inst) {
				inst, found = pi, true
			}
		}
	}
	if !found {
		return false
	}
	var base *gpbft.TipSet
	for _, n := range w.Nodes {
		if b := n.Bases[inst]; b != nil {
			base = b
		}
	}
	if base == nil && inst == cfg.First {
		base = cfg.Root
	}
	if base == nil {
		return false
	}
	if w.pushed == nil {
		w.pushed = map[[3]uint64]bool{}
	}
	evil := PathChain(base, []int{5})
	var all []int
	for i := range w.Nodes {
		all = append(all, i)
	}
	top := w.maxHonestRound()
	for r := top + 1; ; r-- {
		if j, ok := w.ByzJustify(inst, r, gpbft.COMMIT_PHASE, evil, false); ok && j != nil && !w.pushed[[3]uint64{inst, r, 2}] {
			w.pushed[[3]uint64{inst, r, 2}] = true
			for _, id := range cfg.Byz {
				w.SendByz(w.ByzMessage(id, inst, 0, gpbft.DECIDE_PHASE, evil, j), all)
			}
			w.Stats.HijackCommits++
			return true
		}
		if j, ok := w.ByzJustify(inst, r, gpbft.PREPARE_PHASE, evil, false); ok && j != nil && !w.pushed[[3]uint64{inst, r, 1}] {
			w.pushed[[3]uint64{inst, r, 1}] = true
			for _, id := range cfg.Byz {
				w.SendByz(w.ByzMessage(id, inst, r, gpbft.COMMIT_PHASE, evil, j), all)
			}
			w.Stats.HijackCommits++
			return true
		}
		if j, ok := w.ByzJustify(inst, r, gpbft.COMMIT_PHASE, nil, false); ok && j != nil && !w.pushed[[3]uint64{inst, r, 0}] {
			w.pushed[[3]uint64{inst, r, 0}] = true
			for _, id := range cfg.Byz {
				w.SendByz(w.ByzMessage(id, inst, r+1, gpbft.CONVERGE_PHASE, evil, j), all)
				w.SendByz(w.ByzMessage(id, inst, r+1, gpbft.PREPARE_PHASE, evil, j), all)
			}
			w.Stats.HijackConverges++
			return true
		}
		if r == 0 {
			break
		}
	}
	return false
}

// byzTransplant: the coalition takes a genuine strong quorum it can assemble (PREPARE of some
// round for a chain V honest participants voted for) and uses it twice: in a valid COMMIT for
// V (the carrier) and in a COMMIT of the same round for a chain nobody honest proposed. The
// second message is invalid on every path (its justification is for another value); in its
// partial form the justification carries no chain at all, so only the aggregate check against
// the announced key can tell. Once per instance and round.
func (w *World) byzTransplant(t *rapid.T) bool {
	cfg := w.Cfg
	var cands []*Node
	for _, n := range w.Nodes {
		if n.Started && cfg.Inst(n.P.Progress().ID) != nil {
			cands = append(cands, n)
		}
	}
	if len(cands) == 0 {
		return false
	}
	n := cands[rapid.IntRange(0, len(cands)-1).Draw(t, "transplantnode")]
	inst := n.P.Progress().ID
	base := n.Bases[inst]
	in := n.Inputs[inst]
	if base == nil || in == nil {
		return false
	}
	if w.transplanted == nil {
		w.transplanted = map[[2]uint64]bool{}
	}
	evil := PathChain(base, []int{5})
	var all []int
	for i := range w.Nodes {
		all = append(all, i)
	}
	for r := w.maxHonestRound() + 1; ; r-- {
		if !w.transplanted[[2]uint64{inst, r}] {
			for l := in.Len(); l >= 1; l-- {
				v := in.Prefix(l - 1)
				j, ok := w.ByzJustify(inst, r, gpbft.PREPARE_PHASE, v, false)
				if !ok || j == nil {
					continue
				}
				w.transplanted[[2]uint64{inst, r}] = true
				w.SendByz(w.ByzMessage(cfg.Byz[0], inst, r, gpbft.COMMIT_PHASE, v, j), all)
				for _, id := range cfg.Byz {
					w.SendByz(w.ByzMessage(id, inst, r, gpbft.COMMIT_PHASE, evil, j), all)
				}
				w.Stats.Transplants++
				return true
			}
		}
		if r == 0 {
			break
		}
	}
	return false
}

// byzForgedFlood: one coalition member sends a victim a DECIDE for a chain nobody honest
// proposed in the name of every table member (signed with its own key, justified by the
// coalition's signatures alone), each copy up to three times. Every one of them is invalid;
// repetition must not change that.
func (w *World) byzForgedFlood(t *rapid.T) {
	cfg := w.Cfg
	victim := rapid.IntRange(0, len(w.Nodes)-1).Draw(t, "floodvictim")
	n := w.Nodes[victim]
	if !n.Started {
		return
	}
	inst := n.P.Progress().ID
	ic := cfg.Inst(inst)
	if ic == nil {
		return
	}
	base := n.Bases[inst]
	if base == nil && inst == cfg.First {
		base = cfg.Root
	}
	if base == nil {
		return
	}
	evil := PathChain(base, []int{5})
	j, quorum := w.ByzJustify(inst, 0, gpbft.COMMIT_PHASE, evil, true)
	if j == nil || quorum {
		return
	}
	reps := rapid.IntRange(1, 3).Draw(t, "floodreps")
	for _, e := range ic.Table {
		m := w.ByzMessage(cfg.Byz[0], inst, 0, gpbft.DECIDE_PHASE, evil, j)
		if m == nil {
			return
		}
		m.Sender = e.ID
		for r := 0; r < reps; r++ {
			w.SendByz(m, []int{victim})
		}
	}
	w.Stats.ForgedFloods++
}

func (w *World) byzPrevRoundJustification(t *rapid.T, inst, round uint64, value *gpbft.ECChain, under bool) (*gpbft.Justification, bool) {
	// replayed evidence: a genuine quorum of an older round (never admissible: the evidence
	// must come from the round just before)
	if round >= 2 && rapid.IntRange(0, 4).Draw(t, "byzstaleevidence") == 0 {
		old := uint64(rapid.IntRange(0, int(round)-2).Draw(t, "byzstaleround"))
		if j, ok := w.ByzJustify(inst, old, gpbft.COMMIT_PHASE, nil, false); j != nil && ok {
			w.Stats.StaleEvidence++
			return j, ok
		}
		if j, ok := w.ByzJustify(inst, old, gpbft.PREPARE_PHASE, value, false); j != nil && ok {
			w.Stats.StaleEvidence++
			return j, ok
		}
	}
	// either COMMIT bottom or PREPARE value of the previous round
	if rapid.Bool().Draw(t, "byzjustkind") {
		if j, ok := w.ByzJustify(inst, round-1, gpbft.COMMIT_PHASE, nil, false); j != nil {
			return j, ok
		}
	}
	if j, ok := w.ByzJustify(inst, round-1, gpbft.PREPARE_PHASE, value, false); j != nil {
		return j, ok
	}
	if j, ok := w.ByzJustify(inst, round-1, gpbft.COMMIT_PHASE, nil, under); j != nil {
		return j, ok
	}
	return w.ByzJustify(inst, round-1, gpbft.PREPARE_PHASE, value, under)
}

// CloseResult reports how the timely closing phase ended.
type CloseResult struct {
	AllDecided    bool
	Steps         int
	RoundAtStart  uint64
	MaxRoundAfter uint64
	BoundExceeded bool
	// Stalled: the decided participants have nothing in flight and will never send again,
	// and for longer than any phase timeout of the rounds reached (virtual time) no undecided
	// participant changed its progress, decided or emitted anything new
	Stalled     bool
	StalledNote string
}

// Close runs the timely regime: every pending and future message is delivered
// within Delta, alarms fire on time, the coalition is silent. roundBound = 0
// disables the bound. Returns when all started nodes decided the last instance,
// the bound is exceeded, or maxSteps is hit.
func (w *World) Close(t *rapid.T, maxSteps int, roundBound uint64) CloseResult {
	res := CloseResult{RoundAtStart: w.maxHonestRound()}
	res.MaxRoundAfter = res.RoundAtStart
	// everybody that has not started yet starts now
	for i, n := range w.Nodes {
		if !n.Started {
			w.Start(i)
		}
	}
	delta := w.Cfg.Delta
	assign := func(p *Pending) {
		if p.DeliverAt.IsZero() {
			lat := delta / 2 // scripted scenarios (no generator): a fixed latency within the bound
			if t != nil {
				// StrictlyTimely: latencies stay strictly below the bound, so that start skew plus
				// latency stays strictly below a phase timeout of 2*delta (at exact equality the
				// outcome depends on whether the message or the timer is handled first)
				hi := 4
				if w.StrictlyTimely {
					hi = 3
				}
				lat = time.Duration(rapid.IntRange(0, hi).Draw(t, "lat")) * delta / 4
			}
			base := p.SentAt
			if base.Before(w.Now) {
				base = w.Now
			}
			p.DeliverAt = base.Add(lat)
		}
	}
	// Byzantine traffic still in flight is dropped: the coalition is silent from now on
	kept := w.Pool[:0]
	for _, p := range w.Pool {
		if !p.FromByz && p.To < len(w.Nodes) {
			kept = append(kept, p)
		}
	}
	w.Pool = kept
	w.Personas = nil // the coalition is silent from now on
	w.DrainInboxes()
	lastFP, lastChange := "", w.Now
	for steps := 0; steps < maxSteps; steps++ {
		if w.AllDecided() {
			res.AllDecided = true
			break
		}
		for _, p := range w.Pool {
			assign(p)
		}
		// next event in time order; messages before alarms at equal time
		best := -1
		var bestAt time.Time
		for k, p := range w.Pool {
			if best < 0 || p.DeliverAt.Before(bestAt) || (p.DeliverAt.Equal(bestAt) && p.Seq < w.Pool[best].Seq) {
				best, bestAt = k, p.DeliverAt
			}
		}
		alarm := -1
		var alarmAt time.Time
		for i, n := range w.Nodes {
			if w.alarmEligible(n) && (alarm < 0 || n.Alarm.Before(alarmAt)) {
				alarm, alarmAt = i, n.Alarm
			}
		}
		switch {
		case best >= 0 && (alarm < 0 || !alarmAt.Before(bestAt)):
			if bestAt.After(w.Now) {
				w.Now = bestAt
			}
			w.Deliver(best)
		case alarm >= 0:
			w.FireAlarm(alarm)
		default:
			res.Steps = steps
			return res // nothing can happen any more
		}
		res.Steps = steps + 1
		if r := w.maxHonestRound(); r > res.MaxRoundAfter {
			res.MaxRoundAfter = r
		}
		// stall detection
		fp := ""
		for _, n := range w.Nodes {
			fp += fmt.Sprintf("%v/%d/%d|", n.P.Progress().Instant, len(n.Sent), len(n.Decided))
		}
		if fp != lastFP {
			lastFP, lastChange = fp, w.Now
		} else if w.Cfg.Exponent > 0 {
			quiet := true
			for _, p := range w.Pool {
				if from, ok := w.ByIdx[p.Msg.Sender]; ok {
					if _, done := w.Nodes[from].Decided[w.Cfg.Last()]; done {
						quiet = false // a decided participant still has a message in flight
						break
					}
				}
			}
			if quiet {
				limit := 8*time.Duration(float64(delta)*math.Pow(w.Cfg.Exponent, float64(w.maxHonestRound()+2))) + 4*w.Cfg.RebMax
				if w.Now.Sub(lastChange) > limit {
					res.Stalled = true
					res.StalledNote = fmt.Sprintf("no progress, decision or new emission for %v of virtual time (limit %v)", w.Now.Sub(lastChange), limit)
					return res
				}
			}
		}
		if roundBound > 0 {
			if r := w.maxHonestRound(); r > res.RoundAtStart+roundBound {
				res.BoundExceeded = true
				res.MaxRoundAfter = r
				return res
			}
		}
	}
	res.AllDecided = w.AllDecided()
	return res
}

func (w *World) Summary() string {
	s := ""
	for _, n := range w.Nodes {
		s += fmt.Sprintf("[node %d started=%v progress=%s decided=%d sent=%d] ", n.ID, n.Started, fmtInstant(n.P.Progress().Instant), len(n.Decided), len(n.Sent))
	}
	return s
}


// suppVariant re-signs m (a coalition member's message) over supplemental data whose
// commitments differ from the instance's.
func (w *World) suppVariant(m *gpbft.GMessage) *gpbft.GMessage {
	ic := w.Cfg.Inst(m.Vote.Instance)
	i := w.Cfg.IndexOf(m.Vote.Instance, m.Sender)
	if ic == nil || i < 0 {
		return m
	}
	out := cloneMsg(m)
	out.Vote.SupplementalData.Commitments[0] ^= 0x5a
	out.Vote.SupplementalData.Commitments[31] ^= 0x01
	out.Signature = vcrypto.RawSign(ic.Table[i].PubKey, out.Vote.MarshalForSigning(w.Cfg.NN))
	return out
}


// byzPoisonNext: a coalition member sends a validly signed round-0 vote for an instance that
// some honest participants have not started yet, over a chain that does not extend that
// instance's base (or over other supplemental data). Such a message passes validation while
// the instance is still in the future (the base is not known then), is queued, and must be
// dropped - alone - when the instance starts.
func (w *World) byzPoisonNext(t *rapid.T) bool {
	cfg := w.Cfg
	var lo, hi uint64
	first := true
	for _, n := range w.Nodes {
		if !n.Started {
			continue
		}
		pi := n.P.Progress().ID
		if first || pi < lo {
			lo = pi
		}
		if first || pi > hi {
			hi = pi
		}
		first = false
	}
	if first {
		return false
	}
	inst := lo + 1
	if rapid.Bool().Draw(t, "poisonfar") && hi+1 > inst {
		inst = hi + 1
	}
	if cfg.Inst(inst) == nil {
		return false
	}
	id := cfg.Byz[rapid.IntRange(0, len(cfg.Byz)-1).Draw(t, "poisonid")]
	foreign := PathChain(&gpbft.TipSet{Epoch: 3, Key: []byte("foreign-base"), PowerTable: gpbft.MakeCid([]byte("f"))}, []int{0})
	phase := rapid.SampledFrom([]gpbft.Phase{gpbft.QUALITY_PHASE, gpbft.QUALITY_PHASE, gpbft.PREPARE_PHASE}).Draw(t, "poisonphase")
	m := w.ByzMessage(id, inst, 0, phase, foreign, nil)
	if m == nil {
		return false
	}
	if rapid.IntRange(0, 3).Draw(t, "poisonsupp") == 0 {
		m = w.suppVariant(m)
	}
	var all []int
	for i := range w.Nodes {
		all = append(all, i)
	}
	w.SendByz(m, all)
	w.Stats.Poisons++
	return true
}
