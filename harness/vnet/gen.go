package vnet

import (
	"math/big"
	"sort"
	"time"

	"github.com/filecoin-project/go-f3/gpbft"
	"github.com/filecoin-project/go-f3/verifharness/vcrypto"
	"github.com/filecoin-project/go-f3/verifharness/vgen"
	"github.com/filecoin-project/go-f3/verifharness/vref"
	"pgregory.net/rapid"
)

// GenOpts steers the configuration generator.
type GenOpts struct {
	MaxMembers     int
	MaxInstances   int
	MaxPathLen     int
	MinPathLen     int
	AllowByz       bool
	AllowSilent    bool
	HonestQuorum   bool // live honest power must be a strong quorum in every instance
	Unanimous      bool // all honest nodes propose the same chain
	MaxExponent    float64
	ForceByzIfAble bool
	TwoFaced       bool // near-thirds table, Byzantine members run as two personalities
	AllowPartial   bool // a third of the worlds deliver every message through the two-stage validation path
	AllowDivergent bool // a would-be silent member may run as an honest participant with a diverged base view
}

func scaledSum(table gpbft.PowerEntries, ids []gpbft.ActorID) (int64, int64) {
	scaled, total := vref.Scaled(table)
	set := map[gpbft.ActorID]bool{}
	for _, id := range ids {
		set[id] = true
	}
	var s int64
	for i, e := range table {
		if set[e.ID] {
			s += scaled[i]
		}
	}
	return s, total
}

func rolesOK(table gpbft.PowerEntries, honest, byz []gpbft.ActorID, needQuorum bool) bool {
	b, total := scaledSum(table, byz)
	if 3*b >= total {
		return false
	}
	h, _ := scaledSum(table, honest)
	if needQuorum && !vref.StrongQuorum(h, total) {
		return false
	}
	return h > 0
}

// GenConfig draws a world configuration.
func GenConfig(t *rapid.T, o GenOpts) *Config {
	minMembers := 1
	if rapid.IntRange(0, 9).Draw(t, "atleast3") > 0 && o.MaxMembers >= 4 {
		minMembers = 3 + rapid.IntRange(0, 1).Draw(t, "atleast4")
	}
	spec := vgen.Entries(t, "tbl", minMembers, o.MaxMembers)
	if rapid.IntRange(0, 9).Draw(t, "balanced") < 7 {
		// most worlds: no member close to a quorum on its own, otherwise consensus is trivial;
		// occasionally dust members (zero scaled power) are mixed in
		for i := range spec.Entries {
			pw := int64(1000 + rapid.IntRange(0, 400).Draw(t, "balpow"))
			if rapid.IntRange(0, 11).Draw(t, "baldust") == 0 && i > 0 {
				pw = 0
			}
			if pw == 0 {
				spec.Entries[i].Power = gpbft.StoragePower{Int: big.NewInt(0).SetUint64(1)}
				// dust only matters relative to a huge total: scale the others instead
			} else {
				spec.Entries[i].Power = gpbft.StoragePower{Int: new(big.Int).Mul(big.NewInt(pw), big.NewInt(1_000_000))}
			}
		}
		spec.Entries = vref.Canonical(spec.Entries)
		spec.Kind = "balanced"
	}
	if o.TwoFaced {
		// two honest sides of (almost) one third each plus a coalition just below one third,
		// so that side + coalition sits exactly at the strong-quorum boundary
		k := int64(rapid.IntRange(20000, 24000).Draw(t, "thirdsK"))
		d := int64(rapid.IntRange(1, 3).Draw(t, "thirdsD"))
		nb := rapid.IntRange(1, 2).Draw(t, "thirdsByz")
		ents := gpbft.PowerEntries{}
		mk := func(id uint64, p int64) {
			ents = append(ents, gpbft.PowerEntry{ID: gpbft.ActorID(id), Power: gpbft.StoragePower{Int: big.NewInt(p)}, PubKey: vcrypto.PubKey(id)})
		}
		honestSplit := rapid.IntRange(1, 2).Draw(t, "thirdsHonestSplit")
		id := uint64(100)
		for side := 0; side < 2; side++ {
			for x := 0; x < honestSplit; x++ {
				p := k / int64(honestSplit)
				if x == 0 {
					p += k % int64(honestSplit)
				}
				mk(id, p)
				id++
			}
		}
		for x := 0; x < nb; x++ {
			p := (k - d) / int64(nb)
			if x == 0 {
				p += (k - d) % int64(nb)
			}
			mk(id+100, p)
			id++
		}
		spec.Entries = vref.Canonical(ents)
		spec.Kind = "near-thirds"
	}
	table := spec.Entries
	cfg := &Config{
		TwoFaced:  o.TwoFaced,
		NN:        "vnet",
		First:     uint64(rapid.IntRange(0, 40).Draw(t, "first")),
		TableKind: spec.Kind,
		Root:      &gpbft.TipSet{Epoch: int64(rapid.IntRange(0, 500).Draw(t, "rootepoch")), Key: []byte("root-tipset"), PowerTable: gpbft.MakeCid([]byte("root-pt"))},
	}
	// roles: walk members in a generated order
	n := len(table)
	order := make([]int, n)
	for i := range order {
		order[i] = i
	}
	for i := n - 1; i > 0; i-- {
		j := rapid.IntRange(0, i).Draw(t, "roleorder")
		order[i], order[j] = order[j], order[i]
	}
	role := make([]int, n) // 0 honest, 1 byz, 2 silent
	ids := func(r int) []gpbft.ActorID {
		var out []gpbft.ActorID
		for i, x := range role {
			if x == r {
				out = append(out, table[i].ID)
			}
		}
		return out
	}
	wantByz := 0
	if o.AllowByz {
		wantByz = rapid.IntRange(0, 3).Draw(t, "nbyz")
		if o.ForceByzIfAble && wantByz == 0 {
			wantByz = 1
		}
	}
	wantSilent := 0
	if o.AllowSilent {
		wantSilent = rapid.IntRange(0, 2).Draw(t, "nsilent")
	}
	for _, i := range order {
		if wantByz > 0 {
			role[i] = 1
			if rolesOK(table, ids(0), ids(1), o.HonestQuorum) {
				wantByz--
				continue
			}
			role[i] = 0
		}
		if wantSilent > 0 {
			role[i] = 2
			if rolesOK(table, ids(0), ids(1), o.HonestQuorum) {
				wantSilent--
				continue
			}
			role[i] = 0
		}
	}
	cfg.Honest, cfg.Byz, cfg.Silent = ids(0), ids(1), ids(2)
	if o.TwoFaced {
		cfg.Honest, cfg.Byz, cfg.Silent = nil, nil, nil
		for _, e := range table {
			if e.ID >= 200 {
				cfg.Byz = append(cfg.Byz, e.ID)
			} else {
				cfg.Honest = append(cfg.Honest, e.ID)
			}
		}
		sort.Slice(cfg.Honest, func(i, j int) bool { return cfg.Honest[i] < cfg.Honest[j] })
		if !rolesOK(table, cfg.Honest, cfg.Byz, false) {
			// cannot happen by construction; fall back to an all-honest world
			cfg.Honest = append(cfg.Honest, cfg.Byz...)
			cfg.Byz = nil
			cfg.TwoFaced = false
		}
	}
	if o.AllowPartial {
		cfg.PartialPath = rapid.IntRange(0, 2).Draw(t, "partialpath") == 0
	}
	if o.AllowDivergent && !o.TwoFaced && len(cfg.Silent) > 0 && rapid.Bool().Draw(t, "divergent") {
		d := cfg.Silent[0]
		cfg.Silent = cfg.Silent[1:]
		cfg.Honest = append(cfg.Honest, d)
		cfg.Divergent = append(cfg.Divergent, d)
		cfg.DivergentSupp = rapid.Bool().Draw(t, "divergentsupp")
	}
	// instances
	ninst := rapid.IntRange(1, o.MaxInstances).Draw(t, "ninst")
	cur := table
	for k := 0; k < ninst; k++ {
		if k > 0 && rapid.Bool().Draw(t, "reweight") {
			// re-weight one member; keep the change only if the roles stay admissible
			cand := vref.CloneEntries(cur)
			i := rapid.IntRange(0, len(cand)-1).Draw(t, "rwidx")
			np := new(big.Int).Add(cand[i].Power.Int, big.NewInt(int64(rapid.IntRange(1, 50).Draw(t, "rwdelta"))))
			cand[i].Power = gpbft.StoragePower{Int: np}
			cand = vref.Canonical(cand)
			if rolesOK(cand, cfg.Honest, cfg.Byz, o.HonestQuorum) {
				cur = cand
			}
		}
		ic := InstanceCfg{Table: cur, Beacon: vgen.DetBytes(rapid.IntRange(1, 32).Draw(t, "beaconlen"), "beacon", k), Paths: map[gpbft.ActorID][]int{}}
		ic.Supp = gpbft.SupplementalData{PowerTable: vgen.DetCid("supp", k)}
		if rapid.Bool().Draw(t, "suppcommit") {
			copy(ic.Supp.Commitments[:], vgen.DetBytes(32, "suppc", k))
		}
		// inputs: a canonical path and per-node deviations
		L := rapid.IntRange(min(o.MinPathLen, o.MaxPathLen), o.MaxPathLen).Draw(t, "pathlen")
		canon := make([]int, L)
		for _, id := range cfg.Honest {
			p := append([]int(nil), canon...)
			if !o.Unanimous {
				switch rapid.IntRange(0, 4).Draw(t, "pathmode") {
				case 0: // a prefix of the canonical chain
					p = p[:rapid.IntRange(0, L).Draw(t, "prefixlen")]
				case 1: // fork at some depth, then own extension
					d := rapid.IntRange(0, L).Draw(t, "forkdepth")
					p = append(p[:d:d], 1+rapid.IntRange(0, 1).Draw(t, "branch"))
					for x := rapid.IntRange(0, 2).Draw(t, "forkext"); x > 0; x-- {
						p = append(p, 0)
					}
				case 2: // extends the canonical chain
					for x := rapid.IntRange(1, 2).Draw(t, "ext"); x > 0; x-- {
						p = append(p, 0)
					}
				}
			}
			ic.Paths[id] = p
		}
		if o.TwoFaced {
			// each side of the partition prefers its own branch
			for i, id := range cfg.Honest {
				side := 0
				if i >= len(cfg.Honest)/2 {
					side = 1
				}
				p := []int{side}
				for x := 1; x < L; x++ {
					p = append(p, 0)
				}
				ic.Paths[id] = p
			}
		}
		cfg.Instances = append(cfg.Instances, ic)
	}
	// the supplemental data of instance k commits to the table of instance k+1
	for k := range cfg.Instances {
		next := cfg.Instances[k].Table
		if k+1 < len(cfg.Instances) {
			next = cfg.Instances[k+1].Table
		}
		cfg.Instances[k].Supp.PowerTable = vref.TableCID(next)
	}
	// protocol options
	cfg.Delta = time.Duration(rapid.SampledFrom([]int{100, 1000, 3000}).Draw(t, "delta_ms")) * time.Millisecond
	exps := []float64{1.0, 1.3, 1.5, 2.0}
	var allowed []float64
	for _, e := range exps {
		if o.MaxExponent == 0 || e <= o.MaxExponent {
			allowed = append(allowed, e)
		}
	}
	exp := rapid.SampledFrom(allowed).Draw(t, "backoff")
	rebBase := time.Duration(rapid.SampledFrom([]int{200, 1000, 3000}).Draw(t, "reb_ms")) * time.Millisecond
	cfg.Exponent, cfg.RebMax = exp, 10*rebBase
	cfg.Options = []gpbft.Option{
		gpbft.WithDelta(cfg.Delta),
		gpbft.WithDeltaBackOffExponent(exp),
		gpbft.WithMaxLookaheadRounds(uint64(rapid.IntRange(0, 3).Draw(t, "lookahead"))),
		gpbft.WithRebroadcastBackoff(1.3, 0, rebBase, 10*rebBase), // jitter 0: the default jitter reads the global math/rand
		gpbft.WithRebroadcastImmediatelyAfterRound(uint64(rapid.IntRange(0, 3).Draw(t, "rebafter"))),
		gpbft.WithCommitteeLookback(uint64(ninst + rapid.IntRange(1, 3).Draw(t, "lookback"))),
	}
	return cfg
}
