package vnet

import (
	"fmt"

	"github.com/filecoin-project/go-f3/gpbft"
	"github.com/filecoin-project/go-f3/verifharness/vref"
)

// The "greedy decider": a scheduling-plus-Byzantine strategy that turns every value that
// *could* be reported as a decision into an actual decision as early as possible. A
// participant terminates on a strong quorum of DECIDE votes; a value V is decidable once the
// honest participants that broadcast DECIDE(V), together with the whole coalition, hold a
// strong quorum: the coalition sends its own DECIDE(V) (the COMMIT quorum carried by the
// honest DECIDEs justifies them too) and the scheduler hands all of them to one participant
// that has not decided yet (DECIDE votes are relevant in every round). In a correct protocol
// every decidable value of an instance is the same (any two DECIDE quorums share an honest
// participant, and an honest participant sends one DECIDE), so the strategy changes nothing
// but timing; if honest participants can be brought to send DECIDE for two values, or the
// tally accepts what it should not, the latent disagreement becomes an observed one (C01).

type killTarget struct {
	inst  uint64
	value *gpbft.ECChain
}

func (w *World) noteDecide(m *gpbft.GMessage) {
	w.killQueue = append(w.killQueue, killTarget{m.Vote.Instance, m.Vote.Value})
}

// ProcessKills realises queued decidable values (called by the scheduler between steps).
func (w *World) ProcessKills() {
	q := w.killQueue
	w.killQueue = nil
	for _, k := range q {
		w.tryKill(k)
	}
}

func (w *World) tryKill(k killTarget) {
	ic := w.Cfg.Inst(k.inst)
	if ic == nil {
		return
	}
	key := fmt.Sprintf("%d/%x", k.inst, k.value.Key())
	if w.killed == nil {
		w.killed, w.victims = map[string]bool{}, map[int]bool{}
	}
	if w.killed[key] {
		return
	}
	scaled, total := vref.Scaled(ic.Table)
	var sum int64
	for _, id := range w.Cfg.Byz {
		if i := w.Cfg.IndexOf(k.inst, id); i >= 0 {
			sum += scaled[i]
		}
	}
	var honest []*gpbft.GMessage
	for _, n := range w.Nodes {
		for _, s := range n.Sent {
			v := s.Msg.Vote
			if v.Instance == k.inst && v.Phase == gpbft.DECIDE_PHASE && v.Value.Eq(k.value) {
				honest = append(honest, s.Msg)
				if i := w.Cfg.IndexOf(k.inst, n.ID); i >= 0 {
					sum += scaled[i]
				}
				break
			}
		}
	}
	if len(honest) == 0 || !vref.StrongQuorum(sum, total) {
		return
	}
	victim := -1
	for i, n := range w.Nodes {
		if !n.Started || w.victims[i] || n.Decided[k.inst] != nil || n.P.Progress().ID != k.inst {
			continue
		}
		victim = i
		break
	}
	if victim < 0 {
		return
	}
	w.killed[key] = true
	w.victims[victim] = true
	w.Stats.Kills++
	w.tracef("greedy decider: DECIDE(len%d) is decidable, handing the quorum to node %d", k.value.Len(), w.Nodes[victim].ID)
	for _, m := range honest {
		w.deliver(&Pending{Msg: m, To: victim, SentAt: w.Now})
	}
	j := honest[0].Justification
	for _, id := range w.Cfg.Byz {
		if bm := w.ByzMessage(id, k.inst, 0, gpbft.DECIDE_PHASE, k.value, j); bm != nil {
			w.ByzEverSent = true
			w.deliver(&Pending{Msg: bm, To: victim, FromByz: true, SentAt: w.Now})
		}
	}
	if w.Nodes[victim].Decided[k.inst] != nil {
		w.Stats.KillDecisions++
	}
}
