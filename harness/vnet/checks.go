package vnet

import (
	"bytes"
	"fmt"

	"github.com/filecoin-project/go-f3/certs"
	"github.com/filecoin-project/go-f3/gpbft"
	"github.com/filecoin-project/go-f3/verifharness/vcrypto"
	"github.com/filecoin-project/go-f3/verifharness/vref"
)

// CheckAgreement (C01): all honest decisions of one instance are the same chain.
func (w *World) CheckAgreement() (decisions int, multi bool) {
	for inst := w.Cfg.First; inst <= w.Cfg.Last(); inst++ {
		var first *Decision
		var firstNode *Node
		cnt := 0
		for _, n := range w.Nodes {
			d := n.Decided[inst]
			if d == nil {
				continue
			}
			cnt++
			decisions++
			if first == nil {
				first, firstNode = d, n
				continue
			}
			a, b := first.J.Vote.Value, d.J.Vote.Value
			if !vref.ChainEq(a, b) || vref.ChainKey(a) != vref.ChainKey(b) {
				w.Fail("C01", "C01/agreement/different-decisions", fmt.Sprintf("instance %d: node %d decided a chain of %d tipsets (key %x), node %d a chain of %d tipsets (key %x)",
					inst, firstNode.ID, a.Len(), vref.ChainKey(a), n.ID, b.Len(), vref.ChainKey(b)))
			}
		}
		if cnt >= 2 {
			multi = true
		}
	}
	return
}

// CheckValidity (C02): non-empty, starts at the node's base, prefix of some honest input.
func (w *World) CheckValidity() {
	for inst := w.Cfg.First; inst <= w.Cfg.Last(); inst++ {
		for _, n := range w.Nodes {
			d := n.Decided[inst]
			if d == nil {
				continue
			}
			v := d.J.Vote.Value
			if v.IsZero() {
				w.Fail("C02", "C02/validity/decided-bottom", fmt.Sprintf("node %d decided the empty chain in instance %d", n.ID, inst))
				continue
			}
			base := n.Bases[inst]
			if base == nil || !vref.TipSetEq(v.TipSets[0], base) {
				w.Fail("C02", "C02/validity/wrong-base", fmt.Sprintf("node %d decided a chain in instance %d that does not start at the base it entered the instance with", n.ID, inst))
			}
			ok := false
			for _, h := range w.Nodes {
				if in := h.Inputs[inst]; in != nil && vref.IsPrefix(v, in) {
					ok = true
					break
				}
			}
			// honest participants that have not started the instance yet still have a
			// well-defined input: base + their configured path
			if !ok && base != nil {
				ic := w.Cfg.Inst(inst)
				for _, h := range w.Cfg.Honest {
					if vref.IsPrefix(v, PathChain(base, ic.Paths[h])) {
						ok = true
						break
					}
				}
			}
			if !ok {
				w.Fail("C02", "C02/validity/not-prefix-of-honest-input", fmt.Sprintf("node %d decided a chain of %d tipsets in instance %d that is not a prefix of any honest participant's input", n.ID, v.Len(), inst))
			}
		}
	}
}

// CheckDecisionProofs (C03): every reported decision is a verifiable finality proof.
func (w *World) CheckDecisionProofs() (nontrivial int) {
	for inst := w.Cfg.First; inst <= w.Cfg.Last(); inst++ {
		ic := w.Cfg.Inst(inst)
		scaled, total := vref.Scaled(ic.Table)
		for _, n := range w.Nodes {
			d := n.Decided[inst]
			if d == nil {
				continue
			}
			j := d.J
			who := fmt.Sprintf("node %d instance %d", n.ID, inst)
			if j.Vote.Instance != inst {
				w.Fail("C03", "C03/proof/instance", fmt.Sprintf("%s: justification is for instance %d", who, j.Vote.Instance))
			}
			if j.Vote.Round != 0 || j.Vote.Phase != gpbft.DECIDE_PHASE {
				w.Fail("C03", "C03/proof/round-phase", fmt.Sprintf("%s: justification is for round %d phase %s, want round 0 DECIDE", who, j.Vote.Round, j.Vote.Phase))
			}
			supp := n.SuppOf(inst)
			if !j.Vote.SupplementalData.Eq(&supp) {
				w.Fail("C03", "C03/proof/supplement", fmt.Sprintf("%s: justification carries foreign supplemental data", who))
			}
			var idx []int
			last := -1
			bad := ""
			_ = j.Signers.ForEach(func(i uint64) error {
				if int(i) <= last {
					bad = "not strictly increasing"
				}
				last = int(i)
				idx = append(idx, int(i))
				return nil
			})
			var sum int64
			for _, i := range idx {
				if i >= len(ic.Table) {
					bad = fmt.Sprintf("index %d outside the table of %d", i, len(ic.Table))
					break
				}
				if scaled[i] == 0 {
					bad = fmt.Sprintf("signer %d has zero scaled power", ic.Table[i].ID)
				}
				sum += scaled[i]
			}
			if bad != "" {
				w.Fail("C03", "C03/proof/signers", fmt.Sprintf("%s: signer list %v: %s", who, idx, bad))
				continue
			}
			if !vref.StrongQuorum(sum, total) {
				w.Fail("C03", "C03/proof/not-a-quorum", fmt.Sprintf("%s: signers %v hold %d of %d scaled power", who, idx, sum, total))
			}
			payload := vref.PayloadSigningBytes(w.Cfg.NN, inst, 0, gpbft.DECIDE_PHASE, supp, j.Vote.Value)
			if !bytes.Equal(vcrypto.AggregateFor(ic.Table.PublicKeys(), idx, payload), j.Signature) {
				w.Fail("C03", "C03/proof/aggregate", fmt.Sprintf("%s: aggregate does not verify over the DECIDE payload of exactly the decided value", who))
			}
			// certificate with the correct delta, validated by a second "node" that only holds the table
			next := ic.Table
			if nx := w.Cfg.Inst(inst + 1); nx != nil {
				next = nx.Table
			}
			// the supplemental data of the instance commits to whatever the configuration says;
			// certificate validation additionally demands that it is the CID of the next table, so
			// worlds are configured with Supp.PowerTable = CID(next table) when this check is used
			if supp.PowerTable == vref.TableCID(next) {
				cert, err := certs.NewFinalityCertificate(certs.MakePowerTableDiff(ic.Table, next), j)
				if err != nil {
					w.Fail("C03", "C03/cert/construction", fmt.Sprintf("%s: NewFinalityCertificate: %v", who, err))
					continue
				}
				base := n.Bases[inst]
				ni, chain, tbl, err := certs.ValidateFinalityCertificates(vcrypto.Scheme{}, w.Cfg.NN, vref.CloneEntries(ic.Table), inst, base, cert)
				if err != nil {
					w.Fail("C03", "C03/cert/rejected", fmt.Sprintf("%s: certificate built from the decision is rejected: %v", who, err))
					continue
				}
				if ni != inst+1 || !vref.EntriesEq(tbl, vref.Canonical(next)) {
					w.Fail("C03", "C03/cert/result", fmt.Sprintf("%s: certificate validation returned next instance %d / a different table", who, ni))
				}
				var got []*gpbft.TipSet
				if chain != nil {
					got = chain.TipSets
				}
				if !vref.ChainEq(&gpbft.ECChain{TipSets: got}, &gpbft.ECChain{TipSets: j.Vote.Value.TipSets[1:]}) {
					w.Fail("C03", "C03/cert/chain", fmt.Sprintf("%s: certificate validation returned a different finalized suffix", who))
				}
				// and by the independent reference validator
				if r := vref.ValidateCerts(w.Cfg.NN, ic.Table, inst, base, []*certs.FinalityCertificate{cert}); r.ValidPrefix != 1 {
					w.Fail("C03", "C03/cert/rejected-by-reference", fmt.Sprintf("%s: certificate rejected by the reference validator: %s", who, r.Reason))
				}
			}
			hasZero := false
			for _, s := range scaled {
				if s == 0 {
					hasZero = true
				}
			}
			senders := 0
			for _, dl := range n.Mon.deliv[inst] {
				if dl.Msg.Vote.Phase == gpbft.DECIDE_PHASE {
					senders++
				}
			}
			if hasZero || len(idx) < senders || !vref.EntriesEq(ic.Table, next) {
				nontrivial++
			}
		}
	}
	return
}
