package vnet

import (
	"math/big"
	"time"

	"github.com/filecoin-project/go-f3/gpbft"
	"github.com/filecoin-project/go-f3/verifharness/vcrypto"
	"github.com/filecoin-project/go-f3/verifharness/vref"
)

// Scripted worlds: plain regression scenarios (no generator) drive the same
// World through explicit deliveries and alarms.

// ManualConfig builds a one-instance configuration of honest members with the
// given powers and input paths (member i has actor id i+1).
func ManualConfig(powers []int64, paths [][]int, opts ...gpbft.Option) *Config {
	var table gpbft.PowerEntries
	cfg := &Config{NN: "vnet", First: 3, TableKind: "manual", Delta: time.Second,
		Root: &gpbft.TipSet{Epoch: 7, Key: []byte("root-tipset"), PowerTable: gpbft.MakeCid([]byte("root-pt"))}}
	ic := InstanceCfg{Beacon: []byte("beacon"), Paths: map[gpbft.ActorID][]int{}}
	for i, p := range powers {
		id := gpbft.ActorID(i + 1)
		table = append(table, gpbft.PowerEntry{ID: id, Power: gpbft.StoragePower{Int: big.NewInt(p)}, PubKey: vcrypto.PubKey(uint64(id))})
		cfg.Honest = append(cfg.Honest, id)
		ic.Paths[id] = paths[i]
	}
	ic.Table = vref.Canonical(table)
	ic.Supp = gpbft.SupplementalData{PowerTable: vref.TableCID(ic.Table)}
	cfg.Instances = []InstanceCfg{ic}
	cfg.Options = append([]gpbft.Option{
		gpbft.WithDelta(cfg.Delta),
		gpbft.WithDeltaBackOffExponent(1.3),
		gpbft.WithMaxLookaheadRounds(2),
		gpbft.WithRebroadcastBackoff(1.3, 0, 10*time.Second, 100*time.Second),
		gpbft.WithCommitteeLookback(5),
	}, opts...)
	return cfg
}

// DeliverMatching delivers every pending entry that satisfies pred, including
// entries produced while doing so, and returns how many were delivered.
func (w *World) DeliverMatching(pred func(p *Pending) bool) int {
	n := 0
	for guard := 0; guard < 10000; guard++ {
		found := -1
		for k, p := range w.Pool {
			if w.At(p.To).Started && pred(p) {
				found = k
				break
			}
		}
		if found < 0 {
			return n
		}
		w.Deliver(found)
		n++
	}
	return n
}

// NodeOf returns the honest node with actor id.
func (w *World) NodeOf(id gpbft.ActorID) *Node { return w.Nodes[w.ByIdx[id]] }
