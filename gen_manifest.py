#!/usr/bin/env python3
"""Regenerates MANIFEST.json from checks_config.py + manifest_text.py (kept valid at all times)."""
import json, os, sys
ROOT = os.path.dirname(os.path.abspath(__file__))
sys.path.insert(0, ROOT)
from checks_config import PROPS
from manifest_text import TEXT, NOT_APPLICABLE, ENGINES, ADDENDA

checks = []
for pid in sorted(PROPS):
    c = PROPS[pid]
    t = TEXT[pid]
    checks.append(dict(
        property_id=pid,
        quick_cmd="./check %s --tier quick" % pid,
        thorough_cmd="./check %s --tier thorough" % pid,
        evidence_file="/verif/evidence/%s.json" % pid,
        replay_cmd_template="./check %s --replay {path}" % pid,
        engine=t.get("engine", ""),
        level_claimed=dict(category=c["level"], text=t["level_text"] + ADDENDA.get(pid, ""), design_ref=t.get("design_ref", "DESIGN.md section 5, " + pid)),
        level_note=t["level_note"],
        technique=t["technique"],
    ))
m = dict(
    version=1,
    setup_cmd="./check --setup",
    hooks=dict(
        guard="verif",
        enable="go test -tags verif -overlay /verif/build/overlay.json (accessor files from /verif/overlay/<pkg>/*.go are injected into /repo packages at build time; nothing is committed to /repo)",
        baseline_off_cmd="cd /repo && go test -mod=mod -vet=off -count=1 -timeout 25m ./...",
        source_commits=[],
        add_only=True,
    ),
    engines=ENGINES,
    checks=checks,
    notes="All checks are property-based tests / fuzzing (pgregory.net/rapid v1.3.0, native go fuzzing in the thorough tier) run by /verif/check against /repo's working tree. Exit 2 = inconclusive (build error, timeout), never a violation.",
    not_applicable=[dict(property_id=k, reason=v) for k, v in sorted(NOT_APPLICABLE.items()) if k not in PROPS],
)
json.dump(m, open(os.path.join(ROOT, "MANIFEST.json"), "w"), indent=1)
try:
    import jsonschema
    jsonschema.validate(m, json.load(open("/root/.vp/MANIFEST.schema.json")))
    print("MANIFEST.json valid,", len(checks), "checks,", len(m["not_applicable"]), "not yet claimed")
except ImportError:
    print("written (jsonschema not importable here)")
