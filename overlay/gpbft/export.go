//go:build verif

package gpbft

// Accessors injected at build time by /verif (go build -overlay, tag verif).
// They only expose unexported identifiers; no behaviour is added or changed.

func VerifHasWeakQuorum(part, whole int64) bool { return hasWeakQuorum(part, whole) }

// VerifQuorumState wraps the unexported tally.
type VerifQuorumState struct{ q *quorumState }

func VerifNewQuorumState(pt *PowerTable) *VerifQuorumState {
	return &VerifQuorumState{q: newQuorumState(pt)}
}
func (v *VerifQuorumState) Receive(sender ActorID, value *ECChain, sig []byte) {
	v.q.Receive(sender, value, sig)
}
func (v *VerifQuorumState) ReceiveEachPrefix(sender ActorID, value *ECChain) {
	v.q.ReceiveEachPrefix(sender, value)
}
func (v *VerifQuorumState) HasStrongQuorumFor(k ECChainKey) bool { return v.q.HasStrongQuorumFor(k) }
func (v *VerifQuorumState) CouldReachStrongQuorumFor(k ECChainKey, adv bool) bool {
	return v.q.CouldReachStrongQuorumFor(k, adv)
}
func (v *VerifQuorumState) ReceivedFromStrongQuorum() bool { return v.q.ReceivedFromStrongQuorum() }
func (v *VerifQuorumState) ReceivedFromWeakQuorum() bool   { return v.q.ReceivedFromWeakQuorum() }
func (v *VerifQuorumState) FindStrongQuorumFor(k ECChainKey) (QuorumResult, bool) {
	return v.q.FindStrongQuorumFor(k)
}
func (v *VerifQuorumState) FindStrongQuorumValueForLongestPrefixOf(c *ECChain) *ECChain {
	return v.q.FindStrongQuorumValueForLongestPrefixOf(c)
}
func (v *VerifQuorumState) SendersTotalPower() int64 { return v.q.sendersTotalPower }

// VerifSetProgress places a participant at an arbitrary (instance, round, phase)
// as seen by its validator (the validator reads progress only through the
// atomic progression).
func (p *Participant) VerifSetProgress(instance, round uint64, phase Phase) {
	p.progression.NotifyProgress(InstanceProgress{Instant: Instant{ID: instance, Round: round, Phase: phase}})
}

func VerifScalePower(power, total StoragePower) (int64, error) { return scalePower(power, total) }

func VerifVRFInput(beacon []byte, instance, round uint64, nn NetworkName) []byte {
	return vrfSerializeSigInput(beacon, instance, round, nn)
}
