//go:build verif

package polling

import (
	"context"
	"time"

	"github.com/filecoin-project/go-f3/internal/clock"
	"github.com/libp2p/go-libp2p/core/peer"
)

// VerifPrepare initialises a Subscriber the way Start does, except that peers
// are given explicitly instead of being discovered (no background goroutine).
func (s *Subscriber) VerifPrepare(ctx context.Context, clk clock.Clock, peers []peer.ID) error {
	s.clock = clk
	s.peerTracker = newPeerTracker(clk)
	var err error
	s.poller, err = NewPoller(ctx, &s.Client, s.Store, s.SignatureVerifier)
	if err != nil {
		return err
	}
	s.poller.clock = clk
	for _, p := range peers {
		s.peerTracker.peerSeen(p)
	}
	s.discoverCh = make(chan peer.ID) // nothing is ever discovered
	return nil
}

// VerifPoll runs one polling round and returns the progress it reports.
func (s *Subscriber) VerifPoll(ctx context.Context) (uint64, bool, error) { return s.poll(ctx) }

// VerifRun runs the production loop (blocking).
func (s *Subscriber) VerifRun(ctx context.Context) error { return s.run(ctx) }

func (s *Subscriber) VerifNextInstance() uint64 { return s.poller.NextInstance }

// VerifPredictor wraps the production interval predictor.
type VerifPredictor struct{ p *predictor }

func VerifNewPredictor(min, initial, max time.Duration) *VerifPredictor {
	return &VerifPredictor{p: newPredictor(min, initial, max)}
}
func (v *VerifPredictor) Update(progress uint64) time.Duration { return v.p.update(progress) }
