//go:build verif

package f3

import (
	"github.com/filecoin-project/go-f3/internal/writeaheadlog"
	"github.com/libp2p/go-libp2p/core/peer"
)

func peerIDOf(s string) peer.ID { return peer.ID(s) }

func writeaheadlogOpen(dir string) (*writeaheadlog.WriteAheadLog[walEntry, *walEntry], error) {
	return writeaheadlog.Open[walEntry](dir)
}
