//go:build verif

package f3

import (
	"context"

	"github.com/filecoin-project/go-f3/certstore"
	"github.com/filecoin-project/go-f3/ec"
	"github.com/filecoin-project/go-f3/gpbft"
	"github.com/filecoin-project/go-f3/internal/clock"
	"github.com/filecoin-project/go-f3/manifest"
)

// VerifInputs exposes the unexported consensus-inputs component.
type VerifInputs struct{ in gpbftInputs }

func VerifNewInputs(m manifest.Manifest, cs *certstore.Store, backend ec.Backend, v gpbft.Verifier, clk clock.Clock) *VerifInputs {
	return &VerifInputs{in: newInputs(m, cs, backend, v, clk)}
}

func (v *VerifInputs) GetProposal(ctx context.Context, instance uint64) (*gpbft.SupplementalData, *gpbft.ECChain, error) {
	return v.in.GetProposal(ctx, instance)
}

func (v *VerifInputs) GetCommittee(ctx context.Context, instance uint64) (*gpbft.Committee, error) {
	return v.in.GetCommittee(ctx, instance)
}

// ---- C12 accessors ---------------------------------------------------------

// VerifEquivocationFilter wraps the unexported self-equivocation filter.
type VerifEquivocationFilter struct{ f equivocationFilter }

func VerifNewEquivocationFilter(local string) *VerifEquivocationFilter {
	return &VerifEquivocationFilter{f: newEquivocationFilter(peerIDOf(local))}
}
func (v *VerifEquivocationFilter) ProcessBroadcast(m *gpbft.GMessage) bool { return v.f.ProcessBroadcast(m) }
func (v *VerifEquivocationFilter) ProcessReceive(from string, m *gpbft.GMessage) {
	v.f.ProcessReceive(peerIDOf(from), m)
}

// VerifReadWAL reads every message currently decodable from the WAL directory
// with a fresh reader (as a restarted process would).
func VerifReadWAL(dir string) ([]*gpbft.GMessage, error) {
	w, err := writeaheadlogOpen(dir)
	if err != nil {
		return nil, err
	}
	entries, err := w.All()
	if err != nil {
		return nil, err
	}
	out := make([]*gpbft.GMessage, len(entries))
	for i, e := range entries {
		out[i] = e.Message
	}
	return out, nil
}

// VerifRequestRebroadcast asks the running node to rebroadcast what it sent at
// the given instant (what the participant does on rebroadcast timeouts).
func (m *F3) VerifRequestRebroadcast(in gpbft.Instant) error {
	st := m.state.Load()
	if st == nil || st.runner == nil {
		return ErrF3NotRunning
	}
	return (*gpbftHost)(st.runner).RequestRebroadcast(in)
}
