//go:build verif

package f3

import (
	"context"

	"github.com/filecoin-project/go-f3/certstore"
	"github.com/filecoin-project/go-f3/ec"
	"github.com/filecoin-project/go-f3/gpbft"
	"github.com/filecoin-project/go-f3/internal/clock"
	"github.com/filecoin-project/go-f3/manifest"
)

// VerifInputs exposes the unexported consensus-inputs component.
type VerifInputs struct{ in gpbftInputs }

func VerifNewInputs(m manifest.Manifest, cs *certstore.Store, backend ec.Backend, v gpbft.Verifier, clk clock.Clock) *VerifInputs {
	return &VerifInputs{in: newInputs(m, cs, backend, v, clk)}
}

func (v *VerifInputs) GetProposal(ctx context.Context, instance uint64) (*gpbft.SupplementalData, *gpbft.ECChain, error) {
	return v.in.GetProposal(ctx, instance)
}

func (v *VerifInputs) GetCommittee(ctx context.Context, instance uint64) (*gpbft.Committee, error) {
	return v.in.GetCommittee(ctx, instance)
}
