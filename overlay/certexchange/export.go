//go:build verif

package certexchange

import (
	"context"

	"github.com/libp2p/go-libp2p/core/network"
)

// VerifHandle serves one request on stream exactly as the registered stream
// handler does (the harness registers its own handler around it so that it can
// let mock time pass while a request is in flight).
func (s *Server) VerifHandle(ctx context.Context, stream network.Stream) error {
	ctx, cancel := s.withDeadline(ctx)
	defer cancel()
	return s.handleRequest(ctx, stream)
}
