//go:build verif

package pmsg

import "github.com/filecoin-project/go-f3/gpbft"

// VerifInferJustificationVoteValue exposes the production completion step
// (justification value inference) to the harness.
func VerifInferJustificationVoteValue(pgmsg *gpbft.PartialGMessage) {
	inferJustificationVoteValue(pgmsg)
}
