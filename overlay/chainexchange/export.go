//go:build verif

package chainexchange

import (
	"context"

	pubsub "github.com/libp2p/go-libp2p-pubsub"
	pubsub_pb "github.com/libp2p/go-libp2p-pubsub/pb"
)

// VerifValidate runs the pubsub validator on raw message bytes and returns the
// verdict plus the decoded message the validator attached (if accepted).
func (p *PubSubChainExchange) VerifValidate(ctx context.Context, data []byte) (pubsub.ValidationResult, *Message) {
	msg := &pubsub.Message{Message: &pubsub_pb.Message{Data: data}}
	res := p.validatePubSubMessage(ctx, "", msg)
	if res == pubsub.ValidationAccept {
		if cm, ok := msg.ValidatorData.(Message); ok {
			return res, &cm
		}
	}
	return res, nil
}

// VerifCacheAsDiscovered feeds a validated message to the discovered-chain
// cache synchronously (what the subscription loop does).
func (p *PubSubChainExchange) VerifCacheAsDiscovered(ctx context.Context, m Message) {
	p.cacheAsDiscoveredChain(ctx, m)
}

// VerifCacheAsWanted does what Broadcast queues for the node's own chains.
func (p *PubSubChainExchange) VerifCacheAsWanted(ctx context.Context, m Message) {
	p.cacheAsWantedChain(ctx, m)
}

// VerifEncode encodes a message the way Broadcast does.
func (p *PubSubChainExchange) VerifEncode(m *Message) ([]byte, error) { return p.encoding.Encode(m) }
