# Per-property configuration of the driver (/verif/check).
# pkg: test package under harness/, run: -test.run regexp, level: evidence level,
# quick/thorough: checks = rapid cases per rapid test per shard, shards = processes.

ASSUMPTIONS = {
    "C04": ["harness signature scheme (vcrypto) as trusted base for unforgeability", "reference validator and reference delta application in harness/vref written from the property statement", "no nil certificates are passed (caller precondition)"],
    "C08": ["integer arithmetic of the Go runtime and math/big", "power tables are well-formed (positive powers, distinct ids) as gpbft.PowerTable.Add demands"],
}

PROPS = {
    "C04": dict(pkg="t_certs", run="^TestC04", level="exploration",
                quick=dict(checks=1500, shards=8, timeout=400),
                thorough=dict(checks=40000, shards=16, timeout=2400)),
    "C08": dict(pkg="t_arith", run="^TestC08", level="exploration",
                quick=dict(checks=1500, shards=8, timeout=300),
                thorough=dict(checks=60000, shards=16, timeout=1500)),
}
