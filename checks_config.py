# Per-property configuration of the driver (/verif/check).
# pkg: test package under harness/, run: -test.run regexp, level: evidence level,
# quick/thorough: checks = rapid cases per rapid test per shard, shards = processes.

ASSUMPTIONS = {
    "C09": ["the datastore is the harness's deterministic in-memory implementation of go-datastore (sorted map)", "certificates are structurally valid CBOR-encodable values; signatures are not checked by the store (documented)", "concurrent part is a -race stress run, the Go scheduler is not controlled"],
    "C10": ["a crash is modelled as the datastore failing every write from the k-th on; the surviving key/value map is what a restarted process sees (write atomicity of single datastore Put/Delete is assumed)", "Get(i) is observed only for i <= latest: an orphan certificate above the pointer is not state"],
    "C17": ["signatures inside snapshots are not validated by import (not part of the statement)", "rejection of table corruption is demanded only where the format commits to a table: at 1440-instance checkpoints and at the end"],
    "C05": ["harness signature scheme (vcrypto) as trusted base", "reference message validator in harness/vref written from FIP-0086 validity rules and the documented relevance window", "committees are static per instance during a case", "the Go scheduler is not owned by the harness: the concurrent part is a -race stress run"],
    "C13": ["harness signature scheme (vcrypto) as trusted base", "one-shot validation on a fresh participant is the comparison point (itself checked by C05)", "completion uses the production value-inference step via a build-time accessor"],
    "C04": ["harness signature scheme (vcrypto) as trusted base for unforgeability", "reference validator and reference delta application in harness/vref written from the property statement", "no nil certificates are passed (caller precondition)"],
    "C08": ["integer arithmetic of the Go runtime and math/big", "power tables are well-formed (positive powers, distinct ids) as gpbft.PowerTable.Add demands"],
}

PROPS = {
    "C09": dict(pkg="t_store", run="^TestC09", level="exploration",
                quick=dict(checks=250, shards=8, timeout=400, race=True, race_run="^TestC09Concurrent", race_checks=25),
                thorough=dict(checks=8000, shards=16, timeout=2400, race=True, race_run="^TestC09", race_checks=300, env={"VERIF_C09_STEPS": 120})),
    "C10": dict(pkg="t_store", run="^TestC10", level="fault_enumeration",
                quick=dict(checks=150, shards=8, timeout=400),
                thorough=dict(checks=5000, shards=16, timeout=2400)),
    "C17": dict(pkg="t_store", run="^TestC17", level="exploration",
                quick=dict(checks=150, shards=8, timeout=400),
                thorough=dict(checks=4000, shards=16, timeout=2400, env={"VERIF_C17_MAXCERTS": 40})),
    "C05": dict(pkg="t_msgs", run="^TestC05", level="exploration",
                quick=dict(checks=1200, shards=8, timeout=400, race=True, race_run="^TestC05Concurrent", race_checks=40),
                thorough=dict(checks=30000, shards=16, timeout=2400, race=True, race_run="^TestC05(Concurrent|History)", race_checks=1500)),
    "C13": dict(pkg="t_msgs", run="^TestC13", level="exploration",
                quick=dict(checks=1200, shards=8, timeout=400),
                thorough=dict(checks=30000, shards=16, timeout=2400)),
    "C04": dict(pkg="t_certs", run="^TestC04", level="exploration",
                quick=dict(checks=1500, shards=8, timeout=400),
                thorough=dict(checks=40000, shards=16, timeout=2400)),
    "C08": dict(pkg="t_arith", run="^TestC08", level="exploration",
                quick=dict(checks=1500, shards=8, timeout=300),
                thorough=dict(checks=60000, shards=16, timeout=1500)),
}
